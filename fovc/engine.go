package fovc

import (
	"fmt"
	"go/ast"
	"go/token"
	"go/types"
	"os"
	"path/filepath"
	"sort"
	"strings"

	"golang.org/x/tools/go/packages"
)

// Engine holds the loaded packages of /repo (working tree, -tags verif) and all contracts.
type Engine struct {
	CS       *ContractSet
	Pkgs     map[string]*packages.Package // by import path
	ByName   map[string]*packages.Package // by package name (unique inside one module load; main = the loaded root)
	Fset     *token.FileSet
	RepoDir  string
	SpecDir  string
	Loaded   []string
	FuncDecl map[string]*FuncRef // key "pkgname.Func" / "pkgname.Recv.Method"
	mapCache map[string][]*types.Map
}

type FuncRef struct {
	Key  string
	Pkg  *packages.Package
	Decl *ast.FuncDecl
	Obj  *types.Func
}

var goEnv = []string{"GOFLAGS=-mod=mod", "GOPROXY=off", "GOSUMDB=off", "GOTOOLCHAIN=local"}

func NewEngine(repo, specDir string) *Engine {
	return &Engine{CS: NewContractSet(), Pkgs: map[string]*packages.Package{}, ByName: map[string]*packages.Package{}, RepoDir: repo, SpecDir: specDir, FuncDecl: map[string]*FuncRef{}}
}

// LoadModule loads the package in dir (relative to repo) with its /repo dependencies.
func (e *Engine) LoadModule(dir string) error {
	if e.Fset == nil {
		e.Fset = token.NewFileSet()
	}
	cfg := &packages.Config{
		Mode:       packages.NeedName | packages.NeedFiles | packages.NeedCompiledGoFiles | packages.NeedImports | packages.NeedDeps | packages.NeedTypes | packages.NeedSyntax | packages.NeedTypesInfo | packages.NeedTypesSizes | packages.NeedModule,
		Dir:        filepath.Join(e.RepoDir, dir),
		BuildFlags: []string{"-tags=verif"},
		Env:        append(os.Environ(), goEnv...),
		Fset:       e.Fset,
	}
	pkgs, err := packages.Load(cfg, ".")
	if err != nil {
		return err
	}
	var visit func(p *packages.Package) error
	seen := map[string]bool{}
	visit = func(p *packages.Package) error {
		if seen[p.PkgPath] {
			return nil
		}
		seen[p.PkgPath] = true
		for _, ip := range p.Imports {
			if err := visit(ip); err != nil {
				return err
			}
		}
		inRepo := false
		for _, f := range p.GoFiles {
			if strings.HasPrefix(f, e.RepoDir+"/") {
				inRepo = true
			}
		}
		if !inRepo {
			return nil
		}
		if len(p.Errors) > 0 {
			return fmt.Errorf("package %s has errors: %v", p.PkgPath, p.Errors[0])
		}
		if _, ok := e.Pkgs[p.PkgPath]; ok {
			return nil
		}
		e.Pkgs[p.PkgPath] = p
		name := p.Name
		if name == "main" {
			name = "main"
		}
		e.ByName[name] = p
		e.Loaded = append(e.Loaded, p.PkgPath)
		for _, f := range p.Syntax {
			fname := e.Fset.File(f.Pos()).Name()
			for _, d := range f.Decls {
				fd, ok := d.(*ast.FuncDecl)
				if !ok {
					continue
				}
				key := p.Name + "." + fd.Name.Name
				if fd.Recv != nil && len(fd.Recv.List) > 0 {
					rt := fd.Recv.List[0].Type
					if st, ok := rt.(*ast.StarExpr); ok {
						rt = st.X
					}
					if ix, ok := rt.(*ast.IndexExpr); ok {
						rt = ix.X
					}
					if id, ok := rt.(*ast.Ident); ok {
						key = p.Name + "." + id.Name + "." + fd.Name.Name
					}
				}
				obj, _ := p.TypesInfo.Defs[fd.Name].(*types.Func)
				e.FuncDecl[key] = &FuncRef{Key: key, Pkg: p, Decl: fd, Obj: obj}
			}
			if strings.HasSuffix(fname, "contracts_verif.go") {
				if err := e.CS.LoadContractFile(fname, p.Name); err != nil {
					return err
				}
			}
		}
		return nil
	}
	for _, p := range pkgs {
		if err := visit(p); err != nil {
			return err
		}
	}
	return nil
}

func (e *Engine) LoadSpecs() error {
	files, _ := filepath.Glob(filepath.Join(e.SpecDir, "*.spec"))
	sort.Strings(files)
	for _, f := range files {
		if err := e.CS.LoadContractFile(f, ""); err != nil {
			return err
		}
	}
	return nil
}

// funcKey returns the contract key of a called function object.
func funcKey(fn *types.Func) string {
	if fn == nil {
		return ""
	}
	sig, _ := fn.Type().(*types.Signature)
	pkgName := ""
	if fn.Pkg() != nil {
		pkgName = fn.Pkg().Name()
	}
	if sig != nil && sig.Recv() != nil {
		rt := sig.Recv().Type()
		if p, ok := rt.(*types.Pointer); ok {
			rt = p.Elem()
		}
		if n, ok := rt.(*types.Named); ok {
			return pkgName + "." + n.Obj().Name() + "." + fn.Name()
		}
		if a, ok := rt.(*types.Alias); ok {
			return pkgName + "." + a.Obj().Name() + "." + fn.Name()
		}
	}
	return pkgName + "." + fn.Name()
}

// externKey: key for functions outside /repo, by import path's last element(s) as written in specs:
// "strings.HasSuffix", "bytes.Buffer.WriteString", "slices.SortFunc", "cmp.Compare", "fmt.Sprintf".
func externKey(fn *types.Func) string {
	return funcKey(fn)
}

// Obligation is one proof obligation = one SMT query that must be unsat.
type Obligation struct {
	Name      string   `json:"name"`
	Func      string   `json:"func"`
	Kind      string   `json:"kind"`
	Props     []string `json:"props,omitempty"`
	Clause    string   `json:"clause,omitempty"`
	Pos       string   `json:"pos,omitempty"`
	SMT       string   `json:"-"`
	MustFail  bool     `json:"must_fail,omitempty"` // vacuity guard: expected sat/unknown, never unsat
	Result    string   `json:"result,omitempty"`
	Solver    string   `json:"solver,omitempty"`
	TimeS     float64  `json:"time_s,omitempty"`
	Detail    string   `json:"detail,omitempty"`
	Bytes     int      `json:"smt_bytes,omitempty"`
	ModelVars []string `json:"-"`
}
