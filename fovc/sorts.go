package fovc

import (
	"fmt"
	"go/types"
	"sort"
	"strings"
)

type dtField struct {
	Name string
	Sort *Sort
}
type dtCtor struct {
	Name   string
	Fields []dtField
	GoType types.Type // case struct type (unions) or the struct itself
}
type dtDecl struct {
	Name    string
	Ctors   []dtCtor
	IsUnion bool
}

// SortCtx collects the sort declarations a query needs.
type SortCtx struct {
	unint    []string
	unintSet map[string]bool
	seqs     []*Sort
	seqSet   map[string]bool
	dts      map[string]*dtDecl
	dtOrder  []string
	inprog   map[string]bool
	named    map[string]*Sort // cache by types.TypeString
}

func newSortCtx() *SortCtx {
	return &SortCtx{unintSet: map[string]bool{}, seqSet: map[string]bool{}, dts: map[string]*dtDecl{}, inprog: map[string]bool{}, named: map[string]*Sort{}}
}

func (sc *SortCtx) declUnint(name string) *Sort {
	if !sc.unintSet[name] {
		sc.unintSet[name] = true
		sc.unint = append(sc.unint, name)
	}
	return Unint(name)
}

func (sc *SortCtx) declSeq(elem *Sort) *Sort {
	s := SeqOf(elem)
	if !sc.seqSet[s.Name] {
		sc.seqSet[s.Name] = true
		sc.seqs = append(sc.seqs, s)
	}
	return s
}

func typeKeyName(t types.Type) string {
	s := types.TypeString(t, func(p *types.Package) string { return p.Name() })
	return mangle(s)
}

// dtName: the datatype name of a named type; instantiations are named after the sorts of their type
// arguments (so that a generic callee inlined under a type substitution agrees with its caller).
func (fc *FuncCtx) dtName(x *types.Named) string {
	base := x.Obj().Name()
	if x.Obj().Pkg() != nil {
		base = x.Obj().Pkg().Name() + "_" + base
	}
	if x.TypeArgs() == nil || x.TypeArgs().Len() == 0 {
		return mangle(base)
	}
	for i := 0; i < x.TypeArgs().Len(); i++ {
		base += "_" + mangle(fc.sortOf(x.TypeArgs().At(i)).SMT())
	}
	return mangle(base)
}

// unionCases returns the case struct types of a union interface (marker method <Name>_Union), sorted by name.
func unionCases(n *types.Named) []*types.Named {
	iface, ok := n.Underlying().(*types.Interface)
	if !ok {
		return nil
	}
	marker := n.Obj().Name() + "_Union"
	has := false
	for i := 0; i < iface.NumMethods(); i++ {
		if iface.Method(i).Name() == marker {
			has = true
		}
	}
	if !has || n.Obj().Pkg() == nil {
		return nil
	}
	var res []*types.Named
	scope := n.Obj().Pkg().Scope()
	names := scope.Names()
	sort.Strings(names)
	for _, nm := range names {
		tn, ok := scope.Lookup(nm).(*types.TypeName)
		if !ok {
			continue
		}
		cn, ok := tn.Type().(*types.Named)
		if !ok {
			continue
		}
		if _, ok := cn.Underlying().(*types.Struct); !ok {
			continue
		}
		for i := 0; i < cn.NumMethods(); i++ {
			if cn.Method(i).Name() == marker {
				res = append(res, cn)
				break
			}
		}
	}
	return res
}

// caseOfUnion: if t is a case struct of a union, returns the union's named type.
func caseOfUnion(n *types.Named) *types.Named {
	if _, ok := n.Underlying().(*types.Struct); !ok {
		return nil
	}
	for i := 0; i < n.NumMethods(); i++ {
		m := n.Method(i).Name()
		if strings.HasSuffix(m, "_Union") {
			uname := strings.TrimSuffix(m, "_Union")
			if n.Obj().Pkg() == nil {
				return nil
			}
			if tn, ok := n.Obj().Pkg().Scope().Lookup(uname).(*types.TypeName); ok {
				if un, ok := tn.Type().(*types.Named); ok {
					if _, ok := un.Underlying().(*types.Interface); ok {
						return un
					}
				}
			}
		}
	}
	return nil
}

func (fc *FuncCtx) sortOf(t types.Type) *Sort {
	sc := fc.Sorts
	switch x := t.(type) {
	case *types.Alias:
		return fc.sortOf(types.Unalias(x))
	case *types.Basic:
		switch {
		case x.Info()&types.IsBoolean != 0:
			return SBool
		case x.Info()&types.IsInteger != 0:
			return SInt
		case x.Info()&types.IsString != 0:
			if fc.StrMode == "bytes" {
				return SBStr
			}
			return SString
		case x.Info()&types.IsFloat != 0:
			return sc.declUnint("Float")
		case x.Kind() == types.UntypedNil:
			return sc.declUnint("Any")
		}
		return sc.declUnint("Any")
	case *types.TypeParam:
		if fc.tsubst != nil {
			if m, ok := fc.tsubst[x.Obj().Name()]; ok {
				return m
			}
		}
		return sc.declUnint("TP_" + x.Obj().Name())
	case *types.Slice:
		e := fc.sortOf(x.Elem())
		if fc.SliceMode == "heap" {
			fc.needHeap(e)
			return SliceOf(e)
		}
		return sc.declSeq(e)
	case *types.Map:
		return MapOf(fc.sortOf(x.Key()), fc.sortOf(x.Elem()))
	case *types.Signature:
		return &Sort{Kind: KFunc}
	case *types.Pointer:
		if n, ok := x.Elem().(*types.Named); ok {
			if n.Obj().Pkg() != nil && n.Obj().Pkg().Path() == "bytes" && n.Obj().Name() == "Buffer" {
				return SBuf
			}
			return sc.declUnint("Ref_" + n.Obj().Name())
		}
		return sc.declUnint("Ref")
	case *types.Tuple:
		var subs []*Sort
		for i := 0; i < x.Len(); i++ {
			subs = append(subs, fc.sortOf(x.At(i).Type()))
		}
		return TupleSort(subs)
	case *types.Interface:
		return sc.declUnint("Any")
	case *types.Struct:
		return sc.declUnint("AnonStruct")
	case *types.Named:
		if x.Obj().Pkg() != nil && x.Obj().Pkg().Path() == "bytes" && x.Obj().Name() == "Buffer" {
			// a bytes.Buffer value: its content
			if fc.StrMode == "bytes" {
				return SBStr
			}
			return SString
		}
		if x.Obj().Pkg() != nil && x.Obj().Pkg().Path() == "reflect" {
			if x.Obj().Name() == "Kind" {
				return SInt
			}
			return sc.declUnint("Reflect_" + x.Obj().Name())
		}
		switch u := x.Underlying().(type) {
		case *types.Basic, *types.Slice, *types.Map, *types.Signature, *types.Pointer:
			return fc.sortOf(u)
		case *types.Interface:
			cases := unionCases(x)
			if cases == nil {
				return sc.declUnint("Any")
			}
			name := fc.dtName(x)
			if s, ok := sc.named[name]; ok {
				return s
			}
			s := DataSort(name)
			sc.named[name] = s
			d := &dtDecl{Name: name, IsUnion: true}
			sc.dts[name] = d
			sc.dtOrder = append(sc.dtOrder, name)
			for _, c := range cases {
				// instantiate generic case with the union's type args
				var ct types.Type = c
				if x.TypeArgs() != nil && x.TypeArgs().Len() > 0 && c.TypeParams() != nil && c.TypeParams().Len() == x.TypeArgs().Len() {
					var targs []types.Type
					for i := 0; i < x.TypeArgs().Len(); i++ {
						targs = append(targs, x.TypeArgs().At(i))
					}
					if inst, err := types.Instantiate(nil, c, targs, false); err == nil {
						ct = inst
					}
				}
				st := ct.Underlying().(*types.Struct)
				cname := c.Obj().Name()
				if x.TypeArgs() != nil && x.TypeArgs().Len() > 0 {
					cname = name + "__" + c.Obj().Name()
				}
				ctor := dtCtor{Name: cname, GoType: ct}
				for i := 0; i < st.NumFields(); i++ {
					ctor.Fields = append(ctor.Fields, dtField{cname + "_" + st.Field(i).Name(), fc.fieldSort(st.Field(i).Type())})
				}
				d.Ctors = append(d.Ctors, ctor)
			}
			// a nil interface value
			d.Ctors = append(d.Ctors, dtCtor{Name: "nil_" + name})
			return s
		case *types.Struct:
			if un := caseOfUnion(x.Origin()); un != nil {
				// a case struct value is represented in its union's sort
				var ut types.Type = un
				if x.TypeArgs() != nil && x.TypeArgs().Len() > 0 && un.TypeParams() != nil && un.TypeParams().Len() == x.TypeArgs().Len() {
					var targs []types.Type
					for i := 0; i < x.TypeArgs().Len(); i++ {
						targs = append(targs, x.TypeArgs().At(i))
					}
					if inst, err := types.Instantiate(nil, un, targs, false); err == nil {
						ut = inst
					}
				}
				return fc.sortOf(ut)
			}
			name := fc.dtName(x)
			if s, ok := sc.named[name]; ok {
				return s
			}
			s := DataSort(name)
			sc.named[name] = s
			d := &dtDecl{Name: name}
			sc.dts[name] = d
			sc.dtOrder = append(sc.dtOrder, name)
			ctor := dtCtor{Name: "mk_" + name, GoType: x}
			for i := 0; i < u.NumFields(); i++ {
				ctor.Fields = append(ctor.Fields, dtField{name + "_" + u.Field(i).Name(), fc.fieldSort(u.Field(i).Type())})
			}
			d.Ctors = append(d.Ctors, ctor)
			return s
		}
	}
	return sc.declUnint("Any")
}

// fieldSort: sorts usable inside datatype declarations (function values become Int placeholders).
func (fc *FuncCtx) fieldSort(t types.Type) *Sort {
	s := fc.sortOf(t)
	if s.Kind == KFunc || s.Kind == KTuple {
		return SInt
	}
	return s
}

func (fc *FuncCtx) ctorFor(t types.Type) (*dtDecl, *dtCtor) {
	s := fc.sortOf(t)
	if s.Kind != KData {
		return nil, nil
	}
	d := fc.Sorts.dts[s.Name]
	if d == nil {
		return nil, nil
	}
	if !d.IsUnion {
		return d, &d.Ctors[0]
	}
	// find the case by Go type name
	tn := ""
	if n, ok := types.Unalias(t).(*types.Named); ok {
		tn = n.Obj().Name()
	}
	for i := range d.Ctors {
		if d.Ctors[i].GoType != nil {
			if n, ok := d.Ctors[i].GoType.(*types.Named); ok && n.Obj().Name() == tn {
				return d, &d.Ctors[i]
			}
		}
	}
	return d, nil
}

// prelude emits all sort declarations.
func (fc *FuncCtx) prelude() string {
	var b strings.Builder
	b.WriteString("(declare-datatypes ((Slice 0)) (((mk_slice (s_arr Int) (s_off Int) (s_len Int) (s_cap Int)))))\n")
	b.WriteString("(declare-datatypes ((BStr 0)) (((mk_bstr (b_arr (Array Int Int)) (b_len Int)))))\n")
	for _, u := range fc.Sorts.unint {
		fmt.Fprintf(&b, "(declare-sort %s 0)\n", u)
	}
	for _, s := range fc.Sorts.seqs {
		fmt.Fprintf(&b, "(declare-sort %s 0)\n", s.Name)
	}
	if len(fc.Sorts.dtOrder) > 0 {
		b.WriteString("(declare-datatypes (")
		for _, n := range fc.Sorts.dtOrder {
			fmt.Fprintf(&b, "(%s 0) ", n)
		}
		b.WriteString(") (\n")
		for _, n := range fc.Sorts.dtOrder {
			d := fc.Sorts.dts[n]
			b.WriteString("  (")
			for _, c := range d.Ctors {
				b.WriteString("(" + c.Name)
				for _, f := range c.Fields {
					fmt.Fprintf(&b, " (%s %s)", f.Name, f.Sort.SMT())
				}
				b.WriteString(") ")
			}
			b.WriteString(")\n")
		}
		b.WriteString("))\n")
	}
	for _, s := range fc.Sorts.seqs {
		n := strings.TrimPrefix(s.Name, "Seq_")
		fmt.Fprintf(&b, "(declare-fun seq_len_%s (%s) Int)\n", n, s.Name)
		fmt.Fprintf(&b, "(declare-fun seq_at_%s (%s Int) %s)\n", n, s.Name, s.Elem.SMT())
		fmt.Fprintf(&b, "(assert (forall ((s %s)) (! (>= (seq_len_%s s) 0) :pattern ((seq_len_%s s)))))\n", s.Name, n, n)
	}
	return b.String()
}

func seqLen(s Term) Term {
	return App(SInt, "seq_len_"+strings.TrimPrefix(s.Sort.Name, "Seq_"), s)
}
func seqAt(s, i Term) Term {
	return App(s.Sort.Elem, "seq_at_"+strings.TrimPrefix(s.Sort.Name, "Seq_"), s, i)
}
