package fovc

import (
	"fmt"
	"go/ast"
	"go/constant"
	"go/token"
	"go/types"
	"strconv"
	"strings"
)

type ctl struct {
	next func(*St)
	brk  func(*St)
	cont func(*St)
	ret  func(*St, []Term)
}

func (fc *FuncCtx) info() *types.Info {
	if n := len(fc.infoStack); n > 0 {
		return fc.infoStack[n-1]
	}
	return fc.Info
}

func (fc *FuncCtx) typeOf(e ast.Expr) types.Type {
	if tv, ok := fc.info().Types[e]; ok {
		return tv.Type
	}
	if id, ok := e.(*ast.Ident); ok {
		if o := fc.info().ObjectOf(id); o != nil {
			return o.Type()
		}
	}
	return types.Typ[types.Invalid]
}

func (fc *FuncCtx) execStmts(stmts []ast.Stmt, i int, st *St, c ctl) {
	if st.dead {
		return
	}
	if i >= len(stmts) {
		c.next(st)
		return
	}
	c2 := c
	c2.next = func(s *St) { fc.execStmts(stmts, i+1, s, c) }
	fc.execStmt(stmts[i], st, c2)
}

func (fc *FuncCtx) execStmt(s ast.Stmt, st *St, c ctl) {
	if st.dead {
		return
	}
	switch x := s.(type) {
	case *ast.EmptyStmt:
		c.next(st)
	case *ast.BlockStmt:
		fc.execStmts(x.List, 0, st, c)
	case *ast.ExprStmt:
		fc.evalMulti(x.X, st)
		if !st.dead {
			c.next(st)
		}
	case *ast.DeclStmt:
		gd, ok := x.Decl.(*ast.GenDecl)
		if !ok || gd.Tok != token.VAR {
			fc.unsupported(st, "declaration", fc.pos(s))
			return
		}
		for _, sp := range gd.Specs {
			vs := sp.(*ast.ValueSpec)
			if len(vs.Values) == 0 {
				for _, nm := range vs.Names {
					obj := fc.info().Defs[nm]
					if obj == nil {
						continue
					}
					st.vars[obj] = fc.zero(obj.Type(), st)
				}
			} else if len(vs.Values) == len(vs.Names) {
				for i, nm := range vs.Names {
					v := fc.eval(vs.Values[i], st)
					if obj := fc.info().Defs[nm]; obj != nil {
						st.vars[obj] = fc.nameIt(st, nm.Name, fc.coerce(v, obj.Type()))
					}
				}
			} else {
				vals := fc.evalMulti(vs.Values[0], st)
				for i, nm := range vs.Names {
					if obj := fc.info().Defs[nm]; obj != nil && i < len(vals) {
						st.vars[obj] = vals[i]
					}
				}
			}
		}
		if !st.dead {
			c.next(st)
		}
	case *ast.AssignStmt:
		fc.execAssign(x, st)
		if !st.dead {
			c.next(st)
		}
	case *ast.IncDecStmt:
		v := fc.eval(x.X, st)
		var nv Term
		if x.Tok == token.INC {
			nv = Add(v, IntLit(1))
		} else {
			nv = Sub(v, IntLit(1))
		}
		fc.assignTo(x.X, nv, st)
		if !st.dead {
			c.next(st)
		}
	case *ast.ReturnStmt:
		var vals []Term
		if len(x.Results) == 1 {
			vals = fc.evalMulti(x.Results[0], st)
		} else {
			for _, r := range x.Results {
				vals = append(vals, fc.eval(r, st))
			}
		}
		if st.dead {
			return
		}
		c.ret(st, vals)
	case *ast.BranchStmt:
		if x.Label != nil {
			fc.unsupported(st, "labelled branch", fc.pos(s))
			return
		}
		switch x.Tok {
		case token.BREAK:
			if c.brk == nil {
				fc.unsupported(st, "break outside loop", fc.pos(s))
				return
			}
			c.brk(st)
		case token.CONTINUE:
			if c.cont == nil {
				fc.unsupported(st, "continue outside loop", fc.pos(s))
				return
			}
			c.cont(st)
		default:
			fc.unsupported(st, "branch "+x.Tok.String(), fc.pos(s))
		}
	case *ast.IfStmt:
		if x.Init != nil {
			fc.execStmt(x.Init, st, ctl{next: func(*St) {}, brk: c.brk, cont: c.cont, ret: c.ret})
			if st.dead {
				return
			}
		}
		cond := fc.eval(x.Cond, st)
		if st.dead {
			return
		}
		var elseStmts []ast.Stmt
		if x.Else != nil {
			elseStmts = []ast.Stmt{x.Else}
		}
		fc.fork2(st, cond, x.Body.List, elseStmts, c)
	case *ast.SwitchStmt:
		fc.execSwitch(x, st, c)
	case *ast.TypeSwitchStmt:
		fc.execTypeSwitch(x, st, c)
	case *ast.ForStmt:
		fc.execFor(x, st, c)
	case *ast.RangeStmt:
		fc.execRange(x, st, c)
	case *ast.DeferStmt:
		fc.execDefer(x, st, c)
	default:
		fc.unsupported(st, fmt.Sprintf("statement %T", s), fc.pos(s))
	}
}

// fork2 runs two branches from st under cond / !cond and merges the fallthrough outcomes.
func (fc *FuncCtx) fork2(st *St, cond Term, thenS, elseS []ast.Stmt, c ctl) {
	var outs []*St
	rec := func(s *St) { outs = append(outs, s) }
	s1 := st.clone()
	s1.assume(cond)
	c1 := c
	c1.next = rec
	fc.execStmts(thenS, 0, s1, c1)
	s2 := st.clone()
	s2.assume(Not(cond))
	fc.execStmts(elseS, 0, s2, c1)
	if len(outs) == 0 {
		return
	}
	if len(outs) == 1 {
		c.next(outs[0])
		return
	}
	// merging puts the branch facts under guards; quantified facts under guards are hard for the solvers,
	// so such forks are explored path by path instead
	nb := len(st.pc)
	split := len(outs) > 2
	for _, o := range outs {
		for _, p := range o.pc[nb:] {
			if strings.Contains(p.S, "(forall ") || strings.Contains(p.S, "(exists ") {
				split = true
			}
		}
	}
	if split {
		for _, o := range outs {
			c.next(o)
		}
		return
	}
	base := st.clone()
	fc.mergeStates(base, outs, nil)
	if base.dead {
		return
	}
	c.next(base)
}

func (fc *FuncCtx) execSwitch(x *ast.SwitchStmt, st *St, c ctl) {
	if x.Init != nil {
		fc.execStmt(x.Init, st, ctl{next: func(*St) {}, brk: c.brk, cont: c.cont, ret: c.ret})
		if st.dead {
			return
		}
	}
	var tag *Term
	if x.Tag != nil {
		t := fc.eval(x.Tag, st)
		tag = &t
	}
	// desugar to nested if chain; break inside a switch leaves the switch
	inner := c
	inner.brk = c.next
	var clauses []*ast.CaseClause
	var def *ast.CaseClause
	for _, s := range x.Body.List {
		cc := s.(*ast.CaseClause)
		if cc.List == nil {
			def = cc
		} else {
			clauses = append(clauses, cc)
		}
		for _, b := range cc.Body {
			if br, ok := b.(*ast.BranchStmt); ok && br.Tok == token.FALLTHROUGH {
				fc.unsupported(st, "fallthrough", fc.pos(b))
				return
			}
		}
	}
	var run func(i int, s *St)
	run = func(i int, s *St) {
		if s.dead {
			return
		}
		if i >= len(clauses) {
			if def != nil {
				fc.execStmts(def.Body, 0, s, inner)
			} else {
				c.next(s)
			}
			return
		}
		cc := clauses[i]
		var conds []Term
		for _, e := range cc.List {
			v := fc.eval(e, s)
			if tag != nil {
				conds = append(conds, Eq(*tag, v))
			} else {
				conds = append(conds, v)
			}
		}
		cond := Or(conds...)
		s1 := s.clone()
		s1.assume(cond)
		fc.execStmts(cc.Body, 0, s1, inner)
		s2 := s.clone()
		s2.assume(Not(cond))
		run(i+1, s2)
	}
	run(0, st)
}

func (fc *FuncCtx) execTypeSwitch(x *ast.TypeSwitchStmt, st *St, c ctl) {
	var subj ast.Expr
	switch a := x.Assign.(type) {
	case *ast.ExprStmt:
		subj = a.X.(*ast.TypeAssertExpr).X
	case *ast.AssignStmt:
		subj = a.Rhs[0].(*ast.TypeAssertExpr).X
	}
	v := fc.eval(subj, st)
	if st.dead {
		return
	}
	if v.Sort.Kind == KUnint && v.Sort.Name == "Any" {
		fc.execTypeSwitchAny(x, v, st, c)
		return
	}
	if v.Sort.Kind != KData || fc.Sorts.dts[v.Sort.Name] == nil || !fc.Sorts.dts[v.Sort.Name].IsUnion {
		fc.unsupported(st, "type switch on a non-union value", fc.pos(x))
		return
	}
	inner := c
	inner.brk = c.next
	var def *ast.CaseClause
	var matched []Term
	for _, s := range x.Body.List {
		cc := s.(*ast.CaseClause)
		if cc.List == nil {
			def = cc
			continue
		}
		var conds []Term
		for _, te := range cc.List {
			t := fc.typeOf(te)
			_, ctor := fc.ctorFor(t)
			if ctor == nil {
				fc.unsupported(st, "type switch case is not a union case", fc.pos(te))
				return
			}
			conds = append(conds, T("((_ is "+ctor.Name+") "+v.S+")", SBool))
		}
		cond := Or(conds...)
		matched = append(matched, cond)
		s1 := st.clone()
		s1.assume(cond)
		if obj := fc.info().Implicits[cc]; obj != nil {
			s1.vars[obj] = v
		}
		fc.execStmts(cc.Body, 0, s1, inner)
	}
	s2 := st.clone()
	s2.assume(Not(Or(matched...)))
	if def != nil {
		if obj := fc.info().Implicits[def]; obj != nil {
			s2.vars[obj] = v
		}
		fc.execStmts(def.Body, 0, s2, inner)
	} else {
		c.next(s2)
	}
}

func (fc *FuncCtx) execDefer(x *ast.DeferStmt, st *St, c ctl) {
	// the only defer in the verified text is `defer OnParseError(file)`; its effect is modelled at the
	// panic exit by the contract of the enclosing function (DESIGN §2.3).  Record and continue.
	key := ""
	if fn := fc.calleeFunc(x.Call); fn != nil {
		key = funcKey(fn)
	}
	if key != "main.OnParseError" {
		fc.unsupported(st, "defer of "+key, fc.pos(x))
		return
	}
	for _, a := range x.Call.Args {
		fc.eval(a, st)
	}
	st.glob["deferred_OnParseError"] = True
	c.next(st)
}

// nameIt introduces a named constant for a value so that queries stay linear in size.
func (fc *FuncCtx) nameIt(st *St, hint string, v Term) Term {
	if v.Sort.Kind == KFunc || v.Sort.Kind == KTuple {
		return v
	}
	if len(v.S) < 24 {
		return v
	}
	c := fc.fresh(hint, v.Sort)
	c.Fn = v.Fn
	st.assume(Eq(c, v))
	return c
}

func (fc *FuncCtx) execAssign(x *ast.AssignStmt, st *St) {
	switch x.Tok {
	case token.DEFINE, token.ASSIGN:
		var vals []Term
		if len(x.Rhs) == 1 && len(x.Lhs) == 2 && isMapIndex(fc, x.Rhs[0]) {
			ie := ast.Unparen(x.Rhs[0]).(*ast.IndexExpr)
			base := fc.eval(ie.X, st)
			idx := fc.eval(ie.Index, st)
			vals = fc.indexValue(base, idx, st, ie, true)
		} else if ta, ok := ast.Unparen(x.Rhs[0]).(*ast.TypeAssertExpr); ok && len(x.Rhs) == 1 && len(x.Lhs) == 2 && ta.Type != nil {
			vals = fc.evalTypeAssert(ta, st, true)
			if st.dead {
				return
			}
		} else if len(x.Rhs) == 1 && len(x.Lhs) > 1 {
			vals = fc.evalMulti(x.Rhs[0], st)
			if st.dead {
				return
			}
			if len(vals) != len(x.Lhs) {
				fc.unsupported(st, "assignment arity", fc.pos(x))
				return
			}
		} else {
			for _, r := range x.Rhs {
				vals = append(vals, fc.eval(r, st))
				if st.dead {
					return
				}
			}
		}
		for i, l := range x.Lhs {
			v := vals[i]
			if id, ok := l.(*ast.Ident); ok {
				if id.Name == "_" {
					continue
				}
				obj := fc.info().ObjectOf(id)
				if obj == nil {
					fc.unsupported(st, "assignment target", fc.pos(l))
					return
				}
				if pv, ok := obj.(*types.Var); ok && pv.Pkg() != nil && pv.Parent() == pv.Pkg().Scope() {
					fc.assignTo(l, v, st)
					continue
				}
				st.vars[obj] = fc.nameIt(st, id.Name, fc.coerce(v, obj.Type()))
				continue
			}
			fc.assignTo(l, v, st)
		}
	default:
		// op-assign
		l := fc.eval(x.Lhs[0], st)
		r := fc.eval(x.Rhs[0], st)
		var op token.Token
		switch x.Tok {
		case token.ADD_ASSIGN:
			op = token.ADD
		case token.SUB_ASSIGN:
			op = token.SUB
		case token.MUL_ASSIGN:
			op = token.MUL
		default:
			fc.unsupported(st, "assignment operator "+x.Tok.String(), fc.pos(x))
			return
		}
		fc.assignTo(x.Lhs[0], fc.binop(op, l, r, fc.typeOf(x.Lhs[0]), st, x), st)
	}
}

// coerce adapts a value to a declared Go type (interface boxing etc. are identities in the model).
func (fc *FuncCtx) coerce(v Term, t types.Type) Term {
	if t == nil {
		return v
	}
	ts := fc.sortOf(t)
	return fc.coerceSort(v, ts)
}

func (fc *FuncCtx) coerceSort(v Term, ts *Sort) Term {
	if ts.Kind == KUnint && ts.Name == "Any" && !(v.Sort.Kind == KUnint && v.Sort.Name == "Any") && v.Sort.Kind != KFunc && v.Sort.Kind != KTuple {
		return fc.boxAny(v)
	}
	return v
}

func (fc *FuncCtx) assignTo(l ast.Expr, v Term, st *St) {
	switch x := l.(type) {
	case *ast.ParenExpr:
		fc.assignTo(x.X, v, st)
	case *ast.Ident:
		if x.Name == "_" {
			return
		}
		obj := fc.info().ObjectOf(x)
		if obj == nil {
			fc.unsupported(st, "assignment target", fc.pos(l))
			return
		}
		if _, isLocal := st.vars[obj]; !isLocal {
			if pv, ok := obj.(*types.Var); ok && !pv.IsField() && pv.Parent() == pv.Pkg().Scope() {
				// package-level variable
				st.glob["pkgvar_"+pv.Name()] = v
				return
			}
		}
		st.vars[obj] = fc.nameIt(st, x.Name, v)
	case *ast.SelectorExpr:
		base := fc.eval(x.X, st)
		if base.Sort.Kind != KData {
			fc.unsupported(st, "field assignment on non-struct", fc.pos(l))
			return
		}
		d := fc.Sorts.dts[base.Sort.Name]
		if d == nil || d.IsUnion {
			fc.unsupported(st, "field assignment on union", fc.pos(l))
			return
		}
		ct := d.Ctors[0]
		var args []Term
		found := false
		for _, f := range ct.Fields {
			if f.Name == d.Name+"_"+x.Sel.Name {
				args = append(args, v)
				found = true
			} else {
				args = append(args, App(f.Sort, f.Name, base))
			}
		}
		if !found {
			fc.unsupported(st, "unknown field "+x.Sel.Name, fc.pos(l))
			return
		}
		fc.assignTo(x.X, App(base.Sort, ct.Name, args...), st)
	case *ast.IndexExpr:
		base := fc.eval(x.X, st)
		idx := fc.eval(x.Index, st)
		switch base.Sort.Kind {
		case KMap:
			dom := fc.mapDom(st, base.Sort.Key, base.Sort.Elem)
			val := fc.mapVal(st, base.Sort.Key, base.Sort.Elem)
			fc.check(st, Not(Eq(base, IntLit(0))), "nilmap", fc.pos(l), "assignment to entry in nil map")
			key := mkey(base.Sort.Key, base.Sort.Elem)
			st.mdom[key] = Store(dom, base, Store(Select(dom, base), idx, True))
			st.mval[key] = Store(val, base, Store(Select(val, base), idx, v))
		case KSlice:
			fc.check(st, And(Le(IntLit(0), idx), Lt(idx, SlLen(base))), "index", fc.pos(l), "index out of range")
			fc.writeCheck(st, base, fc.pos(l))
			h := fc.heapOf(st, base.Sort.Elem)
			st.heaps[base.Sort.Elem.SMT()] = Store(h, SlArr(base), Store(Select(h, SlArr(base)), Add(SlOff(base), idx), v))
		default:
			fc.unsupported(st, "index assignment", fc.pos(l))
		}
	default:
		fc.unsupported(st, fmt.Sprintf("assignment target %T", l), fc.pos(l))
	}
}

// writeCheck: C12 discipline — library code writes only into arrays it allocated itself.
func (fc *FuncCtx) writeCheck(st *St, sl Term, pos string) {
	if fc.SliceMode != "heap" {
		return
	}
	fc.nwrite++
	fc.oblig(st, fmt.Sprintf("write#%d.owned", fc.nwrite), Select(st.mine, SlArr(sl)), "a write goes only into an array allocated by this call (mine[arr])", pos, []string{"C12"})
}

func (fc *FuncCtx) zero(t types.Type, st *St) Term {
	so := fc.sortOf(t)
	return fc.zeroOfSort(so, t)
}

func (fc *FuncCtx) zeroOfSort(so *Sort, t types.Type) Term {
	switch so.Kind {
	case KInt:
		return IntLit(0)
	case KBool:
		return False
	case KString:
		return StrLit("")
	case KBStr:
		return fc.bstrLit("")
	case KSlice:
		return MkSlice(so, IntLit(0), IntLit(0), IntLit(0), IntLit(0))
	case KSeq:
		n := "nilseq_" + strings.TrimPrefix(so.Name, "Seq_")
		if !fc.declSet[n] {
			fc.declare(n, so)
			fc.addAxiom(Eq(seqLen(T(n, so)), IntLit(0)).S)
		}
		return T(n, so)
	case KMap, KBuf:
		return T("0", so)
	case KFunc:
		return T("0", so)
	case KData:
		d := fc.Sorts.dts[so.Name]
		if d != nil && d.IsUnion {
			return T("nil_"+so.Name, so)
		}
		if d != nil {
			var args []Term
			ct := d.Ctors[0]
			var stt *types.Struct
			if t != nil {
				stt, _ = t.Underlying().(*types.Struct)
			}
			for i, f := range ct.Fields {
				var ft types.Type
				if stt != nil && i < stt.NumFields() {
					ft = stt.Field(i).Type()
				}
				args = append(args, fc.zeroOfSort(f.Sort, ft))
			}
			if len(args) == 0 {
				return T(ct.Name, so)
			}
			return App(so, ct.Name, args...)
		}
	}
	n := "zero_" + mangle(so.SMT())
	fc.declare(n, so)
	return T(n, so)
}

// bstrLit builds a byte-string constant.
func (fc *FuncCtx) bstrLit(s string) Term {
	name := "blit_" + fmt.Sprintf("%x", s)
	if len(name) > 60 {
		fc.n++
		name = fmt.Sprintf("blit_n%d", fc.n)
	}
	if !fc.declSet[name] {
		fc.declare(name, SBStr)
		t := T(name, SBStr)
		fc.addAxiom(Eq(BsLen(t), IntLit(int64(len(s)))).S)
		for i := 0; i < len(s); i++ {
			fc.addAxiom(Eq(Select(BsArr(t), IntLit(int64(i))), IntLit(int64(s[i]))).S)
		}
	}
	return T(name, SBStr)
}

func (fc *FuncCtx) constTerm(v constant.Value, t types.Type, st *St) (Term, bool) {
	switch v.Kind() {
	case constant.Bool:
		return BoolLit(constant.BoolVal(v)), true
	case constant.Int:
		if i, ok := constant.Int64Val(v); ok {
			return IntLit(i), true
		}
		return IntLitS(v.ExactString()), true
	case constant.String:
		s := constant.StringVal(v)
		if fc.StrMode == "bytes" {
			return fc.bstrLit(s), true
		}
		return StrLit(s), true
	}
	return Term{}, false
}

func (fc *FuncCtx) eval(e ast.Expr, st *St) Term {
	vs := fc.evalMulti(e, st)
	if len(vs) == 0 {
		return T("0", SInt)
	}
	return vs[0]
}

func (fc *FuncCtx) evalMulti(e ast.Expr, st *St) []Term {
	if st.dead {
		return []Term{T("0", SInt)}
	}
	if tv, ok := fc.info().Types[e]; ok && tv.Value != nil {
		if t, ok := fc.constTerm(tv.Value, tv.Type, st); ok {
			return []Term{t}
		}
	}
	switch x := e.(type) {
	case *ast.ParenExpr:
		return fc.evalMulti(x.X, st)
	case *ast.BasicLit:
		switch x.Kind {
		case token.INT:
			return []Term{IntLitS(x.Value)}
		case token.STRING:
			s, _ := strconv.Unquote(x.Value)
			if fc.StrMode == "bytes" {
				return []Term{fc.bstrLit(s)}
			}
			return []Term{StrLit(s)}
		case token.CHAR:
			r, _, _, _ := strconv.UnquoteChar(x.Value[1:len(x.Value)-1], '\'')
			return []Term{IntLit(int64(r))}
		}
		fc.unsupported(st, "literal "+x.Value, fc.pos(e))
		return []Term{T("0", SInt)}
	case *ast.Ident:
		return []Term{fc.evalIdent(x, st)}
	case *ast.UnaryExpr:
		switch x.Op {
		case token.NOT:
			return []Term{Not(fc.eval(x.X, st))}
		case token.SUB:
			return []Term{App(SInt, "-", fc.eval(x.X, st))}
		case token.ADD:
			return []Term{fc.eval(x.X, st)}
		case token.AND:
			// &bytes.Buffer{} : a fresh buffer reference
			if cl, ok := x.X.(*ast.CompositeLit); ok {
				if fc.sortOf(fc.typeOf(e)).Kind == KBuf {
					_ = cl
					return []Term{fc.newBuf(st)}
				}
			}
		}
		fc.unsupported(st, "unary "+x.Op.String(), fc.pos(e))
		return []Term{T("0", SInt)}
	case *ast.BinaryExpr:
		if x.Op == token.LAND || x.Op == token.LOR {
			l := fc.eval(x.X, st)
			// right operand evaluated under the guard (short circuit)
			n := len(st.pc)
			if x.Op == token.LAND {
				st.assume(l)
			} else {
				st.assume(Not(l))
			}
			wasDead := st.dead
			snap := fc.effectSnapshot(st)
			r := fc.eval(x.Y, st)
			if fc.effectSnapshot(st) != snap {
				fc.unsupported(st, "side effect in the right operand of a short-circuit operator", fc.pos(e))
			}
			// keep definitional assumptions made while evaluating the right operand, guarded
			extra := append([]Term(nil), st.pc[n+1:]...)
			st.pc = st.pc[:n]
			st.dead = false
			for _, p := range st.pc {
				if p.S == "false" {
					st.dead = true
				}
			}
			_ = wasDead
			g := l
			if x.Op == token.LOR {
				g = Not(l)
			}
			for _, a := range extra {
				st.assume(Implies(g, a))
			}
			if x.Op == token.LAND {
				return []Term{And(l, r)}
			}
			return []Term{Or(l, r)}
		}
		l := fc.eval(x.X, st)
		r := fc.eval(x.Y, st)
		return []Term{fc.binop(x.Op, l, r, fc.typeOf(x.X), st, e)}
	case *ast.CallExpr:
		return fc.evalCall(x, st)
	case *ast.IndexExpr:
		// generic instantiation?
		if tv, ok := fc.info().Types[x.X]; ok {
			if _, isSig := tv.Type.(*types.Signature); isSig {
				return fc.evalMulti(x.X, st)
			}
		}
		base := fc.eval(x.X, st)
		idx := fc.eval(x.Index, st)
		return []Term{fc.indexValue(base, idx, st, e, false)[0]}
	case *ast.IndexListExpr:
		return fc.evalMulti(x.X, st)
	case *ast.SliceExpr:
		return []Term{fc.evalSliceExpr(x, st)}
	case *ast.SelectorExpr:
		return []Term{fc.evalSelector(x, st)}
	case *ast.CompositeLit:
		return []Term{fc.evalComposite(x, st)}
	case *ast.FuncLit:
		sig, _ := fc.typeOf(x).(*types.Signature)
		fv := &FuncVal{Kind: "lit", Lit: x, Env: st.clone(), Sig: sig, Info: fc.info(), TArgs: fc.tsubst, TTypes: fc.tsubstTypes}
		return []Term{{S: "0", Sort: &Sort{Kind: KFunc}, Fn: fv}}
	case *ast.TypeAssertExpr:
		if x.Type == nil {
			fc.unsupported(st, "type switch guard outside a type switch", fc.pos(e))
			return []Term{T("0", SInt)}
		}
		return fc.evalTypeAssert(x, st, false)[:1]
	case *ast.StarExpr:
		fc.unsupported(st, "pointer dereference", fc.pos(e))
		return []Term{T("0", SInt)}
	}
	fc.unsupported(st, fmt.Sprintf("expression %T", e), fc.pos(e))
	return []Term{T("0", SInt)}
}

// effectSnapshot summarises the mutable global components of a state (to detect side effects).
func (fc *FuncCtx) effectSnapshot(st *St) string {
	var b strings.Builder
	b.WriteString(st.next.S)
	b.WriteString(st.mine.S)
	b.WriteString(st.bufh.S)
	for _, m := range []map[string]Term{st.heaps, st.mdom, st.mval, st.trn, st.glob} {
		ks := make([]string, 0, len(m))
		for k := range m {
			ks = append(ks, k)
		}
		sortStrings(ks)
		for _, k := range ks {
			b.WriteString(k + "=" + m[k].S + ";")
		}
	}
	return b.String()
}

func sortStrings(a []string) {
	for i := 1; i < len(a); i++ {
		for j := i; j > 0 && a[j] < a[j-1]; j-- {
			a[j], a[j-1] = a[j-1], a[j]
		}
	}
}

func (fc *FuncCtx) evalIdent(x *ast.Ident, st *St) Term {
	switch x.Name {
	case "true":
		return True
	case "false":
		return False
	}
	obj := fc.info().ObjectOf(x)
	if obj == nil {
		fc.unsupported(st, "identifier "+x.Name, fc.pos(x))
		return T("0", SInt)
	}
	switch o := obj.(type) {
	case *types.Nil:
		t := fc.typeOf(x)
		return fc.zero(t, st)
	case *types.Var:
		if v, ok := st.vars[o]; ok {
			return v
		}
		if o.Pkg() != nil && o.Parent() == o.Pkg().Scope() {
			return fc.pkgVar(o, st)
		}
		// a variable captured from an enclosing state that we do not know: fail closed
		fc.unsupported(st, "unknown variable "+x.Name, fc.pos(x))
		return T("0", SInt)
	case *types.Func:
		return fc.namedFuncValAt(o, x)
	case *types.Const:
		if t, ok := fc.constTerm(o.Val(), o.Type(), st); ok {
			return t
		}
	}
	fc.unsupported(st, "identifier kind "+x.Name, fc.pos(x))
	return T("0", SInt)
}

// namedFuncValAt: a reference to a declared function at an identifier; records the instantiation of a
// generic function so that its contract can be translated when the value is called later.
func (fc *FuncCtx) namedFuncValAt(o *types.Func, id *ast.Ident) Term {
	t := fc.namedFuncVal(o)
	if inst, ok := fc.info().Instances[id]; ok {
		if sig, ok := o.Type().(*types.Signature); ok && sig.TypeParams() != nil {
			m := map[string]*Sort{}
			for i := 0; i < sig.TypeParams().Len() && i < inst.TypeArgs.Len(); i++ {
				m[sig.TypeParams().At(i).Obj().Name()] = fc.sortOf(inst.TypeArgs.At(i))
			}
			t.Fn.TArgs = m
			if s2, ok := inst.Type.(*types.Signature); ok {
				t.Fn.Sig = s2
			}
		}
	}
	return t
}

func (fc *FuncCtx) namedFuncVal(o *types.Func) Term {
	key := funcKey(o)
	sig, _ := o.Type().(*types.Signature)
	fv := &FuncVal{Kind: "named", Name: key, Sig: sig, Ref: fc.E.FuncDecl[key]}
	if fv.Ref == nil || (o.Pkg() != nil && fc.E.Pkgs[o.Pkg().Path()] == nil) {
		fv.Name = "ext:" + o.Pkg().Path() + "." + strings.TrimPrefix(key, o.Pkg().Name()+".")
		fv.Ref = nil
	}
	return Term{S: "0", Sort: &Sort{Kind: KFunc}, Fn: fv}
}

// pkgVar evaluates a package-level variable: union constructor variables (New_U_C) and other simple
// initialisers are evaluated; anything else is an opaque constant.
func (fc *FuncCtx) pkgVar(o *types.Var, st *St) Term {
	if v, ok := st.glob["pkgvar_"+o.Name()]; ok {
		return v
	}
	so := fc.sortOf(o.Type())
	// find the initialiser
	if p := fc.E.Pkgs[o.Pkg().Path()]; p != nil {
		for _, f := range p.Syntax {
			for _, d := range f.Decls {
				gd, ok := d.(*ast.GenDecl)
				if !ok || gd.Tok != token.VAR {
					continue
				}
				for _, sp := range gd.Specs {
					vs := sp.(*ast.ValueSpec)
					for i, nm := range vs.Names {
						if p.TypesInfo.Defs[nm] != o || i >= len(vs.Values) {
							continue
						}
						if cl, ok := vs.Values[i].(*ast.CompositeLit); ok && len(cl.Elts) == 0 {
							fc.infoStack = append(fc.infoStack, p.TypesInfo)
							t := fc.evalComposite(cl, st)
							fc.infoStack = fc.infoStack[:len(fc.infoStack)-1]
							return t
						}
					}
				}
			}
		}
	}
	if so.Kind == KFunc {
		fc.unsupported(st, "package-level function variable "+o.Name(), "")
		return T("0", so)
	}
	name := "pkgvar_" + o.Pkg().Name() + "_" + o.Name()
	fc.declare(name, so)
	if so.Kind == KMap && fc.pkgMapVals[name] == nil {
		// a package-level map literal: remember the values it can hold (read from the literal on every run)
		fc.collectMapLiteralValues(o, name, st)
	}
	return T(name, so)
}

func isUint8(t types.Type) bool {
	b, ok := t.Underlying().(*types.Basic)
	return ok && (b.Kind() == types.Uint8)
}

func (fc *FuncCtx) binop(op token.Token, l, r Term, lt types.Type, st *St, at ast.Node) Term {
	switch op {
	case token.ADD:
		if l.Sort.Kind == KString {
			return App(SString, "str.++", l, r)
		}
		if l.Sort.Kind == KBStr {
			return fc.bstrConcat(l, r, st)
		}
		res := Add(l, r)
		if isUint8(lt) {
			return App(SInt, "mod", res, IntLit(256))
		}
		return res
	case token.SUB:
		res := Sub(l, r)
		if isUint8(lt) {
			return App(SInt, "mod", res, IntLit(256))
		}
		return res
	case token.MUL:
		res := App(SInt, "*", l, r)
		if isUint8(lt) {
			return App(SInt, "mod", res, IntLit(256))
		}
		return res
	case token.QUO:
		fc.check(st, Not(Eq(r, IntLit(0))), "div", fc.pos(at), "division by zero")
		// Go truncates toward zero
		q := App(SInt, "div", App(SInt, "abs", l), App(SInt, "abs", r))
		return Ite(Eq(Lt(l, IntLit(0)), Lt(r, IntLit(0))), q, App(SInt, "-", q))
	case token.REM:
		fc.check(st, Not(Eq(r, IntLit(0))), "div", fc.pos(at), "division by zero")
		m := App(SInt, "mod", App(SInt, "abs", l), App(SInt, "abs", r))
		return Ite(Lt(l, IntLit(0)), App(SInt, "-", m), m)
	case token.EQL:
		return fc.equal(l, r)
	case token.NEQ:
		return Not(fc.equal(l, r))
	case token.LSS:
		if l.Sort.Kind == KString {
			return App(SBool, "str.<", l, r)
		}
		return Lt(l, r)
	case token.LEQ:
		if l.Sort.Kind == KString {
			return App(SBool, "str.<=", l, r)
		}
		return Le(l, r)
	case token.GTR:
		if l.Sort.Kind == KString {
			return App(SBool, "str.<", r, l)
		}
		return Lt(r, l)
	case token.GEQ:
		if l.Sort.Kind == KString {
			return App(SBool, "str.<=", r, l)
		}
		return Le(r, l)
	}
	fc.unsupported(st, "binary operator "+op.String(), fc.pos(at))
	return T("0", SInt)
}

func (fc *FuncCtx) equal(l, r Term) Term {
	if l.Sort.Kind == KBStr {
		return fc.bstrEq(l, r)
	}
	return Eq(l, r)
}

// bstrEq: extensional equality of byte strings.
func (fc *FuncCtx) bstrEq(l, r Term) Term {
	fc.declareBstrEq()
	return App(SBool, "bstr_eq", l, r)
}

func (fc *FuncCtx) declareBstrEq() {
	if fc.declSet["bstr_eq"] {
		return
	}
	fc.declSet["bstr_eq"] = true
	fc.decls = append(fc.decls, "(define-fun bstr_eq ((a BStr) (b BStr)) Bool (and (= (b_len a) (b_len b)) (forall ((k Int)) (=> (and (<= 0 k) (< k (b_len a))) (= (select (b_arr a) k) (select (b_arr b) k))))))")
}

func (fc *FuncCtx) bstrConcat(l, r Term, st *St) Term {
	res := fc.fresh("cat", SBStr)
	st.assume(Eq(BsLen(res), Add(BsLen(l), BsLen(r))))
	k := "k"
	st.assume(T(fmt.Sprintf("(forall ((%s Int)) (! (and (=> (and (<= 0 %s) (< %s (b_len %s))) (= (select (b_arr %s) %s) (select (b_arr %s) %s))) (=> (and (<= (b_len %s) %s) (< %s (b_len %s))) (= (select (b_arr %s) %s) (select (b_arr %s) (- %s (b_len %s)))))) :pattern ((select (b_arr %s) %s))))",
		k, k, k, l.S, res.S, k, l.S, k, l.S, k, k, res.S, res.S, k, r.S, k, l.S, res.S, k), SBool))
	return res
}

func (fc *FuncCtx) newBuf(st *St) Term {
	// fresh buffer reference with empty content
	r := fc.fresh("bufref", SBuf)
	st.assume(Eq(r, st.next))
	st.next = Add(st.next, IntLit(1))
	h := fc.bufHeap(st)
	st.bufh = Store(h, r, fc.zeroOfSort(fc.strSort(), nil))
	return r
}

// check: an implicit run-time check (index in range etc.).  cond is what must hold not to panic.
func (fc *FuncCtx) check(st *St, cond Term, kind string, pos string, what string) {
	if st.dead {
		return
	}
	switch fc.Con.Panics {
	case "never":
		fc.nchk++
		fc.oblig(st, fmt.Sprintf("%s#%d", kind, fc.nchk), cond, what+" cannot happen (panics never)", pos, nil)
	case "iff":
		fc.nchk++
		s2 := st.clone()
		s2.assume(Not(cond))
		fc.oblig(s2, fmt.Sprintf("%s#%d.iff", kind, fc.nchk), fc.panicCond(st), what+" only if the contract's panic condition holds", pos, nil)
	}
	st.assume(cond)
}

func (fc *FuncCtx) panicCond(st *St) Term {
	env := fc.newEnv(fc.entry)
	env.old = fc.entry
	env.cur = st // ghost variables have their current value
	return fc.spec(fc.Con.PanicsCond, env)
}

// panicAt: an explicit panic site is reached in st.
func (fc *FuncCtx) panicAt(st *St, pos string, what string) {
	if st.dead {
		return
	}
	fc.npanic++
	switch fc.Con.Panics {
	case "never":
		fc.oblig(st, fmt.Sprintf("panic#%d.unreachable", fc.npanic), False, "panic site is unreachable (panics never): "+what, pos, nil)
	case "iff":
		fc.oblig(st, fmt.Sprintf("panic#%d.iff", fc.npanic), fc.panicCond(st), "panics only if the contract's panic condition holds: "+what, pos, nil)
	}
	for _, cl := range fc.Con.OnPanic {
		if !clauseFor(cl.Props, fc.Prop) {
			continue
		}
		fc.oblig(st, fmt.Sprintf("panic#%d.onpanic.%s", fc.npanic, cl.Name), fc.spec(cl.Expr, fc.newEnv(st)), "on abnormal termination ("+what+"): "+cl.Src, pos, cl.Props)
	}
	if fc.onPanic != nil {
		fc.onPanic(st.clone(), what)
	}
	st.assume(False)
}

func (fc *FuncCtx) indexValue(base, idx Term, st *St, at ast.Node, commaOk bool) []Term {
	switch base.Sort.Kind {
	case KSlice:
		fc.check(st, And(Le(IntLit(0), idx), Lt(idx, SlLen(base))), "index", fc.pos(at), "index out of range")
		h := fc.heapOf(st, base.Sort.Elem)
		return []Term{Select(Select(h, SlArr(base)), Add(SlOff(base), idx))}
	case KSeq:
		fc.check(st, And(Le(IntLit(0), idx), Lt(idx, seqLen(base))), "index", fc.pos(at), "index out of range")
		return []Term{seqAt(base, idx)}
	case KString:
		fc.check(st, And(Le(IntLit(0), idx), Lt(idx, App(SInt, "str.len", base))), "index", fc.pos(at), "index out of range")
		return []Term{App(SInt, "str.to_code", App(SString, "str.at", base, idx))}
	case KBStr:
		fc.check(st, And(Le(IntLit(0), idx), Lt(idx, BsLen(base))), "index", fc.pos(at), "index out of range")
		return []Term{Select(BsArr(base), idx)}
	case KMap:
		dom := fc.mapDom(st, base.Sort.Key, base.Sort.Elem)
		val := fc.mapVal(st, base.Sort.Key, base.Sort.Elem)
		has := Select(Select(dom, base), idx)
		if vals, ok := fc.pkgMapVals[base.S]; ok && len(vals) > 0 {
			// lookup in a package-level map literal: a present value is one of the literal's values
			var ds []Term
			for _, v := range vals {
				ds = append(ds, Eq(Select(Select(val, base), idx), v))
			}
			st.assume(Implies(has, Or(ds...)))
		}
		v := Ite(has, Select(Select(val, base), idx), fc.zeroOfSort(base.Sort.Elem, nil))
		return []Term{v, has}
	case KArray:
		return []Term{Select(base, idx)}
	}
	fc.unsupported(st, "index on "+base.Sort.String(), fc.pos(at))
	return []Term{T("0", SInt), False}
}

func (fc *FuncCtx) evalSliceExpr(x *ast.SliceExpr, st *St) Term {
	base := fc.eval(x.X, st)
	var lo, hi, mx *Term
	if x.Low != nil {
		t := fc.eval(x.Low, st)
		lo = &t
	}
	if x.High != nil {
		t := fc.eval(x.High, st)
		hi = &t
	}
	if x.Max != nil {
		t := fc.eval(x.Max, st)
		mx = &t
	}
	zero := IntLit(0)
	switch base.Sort.Kind {
	case KSlice:
		l := zero
		if lo != nil {
			l = *lo
		}
		h := SlLen(base)
		if hi != nil {
			h = *hi
		}
		c := SlCap(base)
		if mx != nil {
			c = *mx
			fc.check(st, And(Le(zero, l), Le(l, h), Le(h, c), Le(c, SlCap(base))), "slice", fc.pos(x), "slice bounds out of range")
		} else {
			fc.check(st, And(Le(zero, l), Le(l, h), Le(h, SlCap(base))), "slice", fc.pos(x), "slice bounds out of range")
		}
		return MkSlice(base.Sort, SlArr(base), Add(SlOff(base), l), Sub(h, l), Sub(c, l))
	case KString:
		l := zero
		if lo != nil {
			l = *lo
		}
		h := App(SInt, "str.len", base)
		if hi != nil {
			h = *hi
		}
		fc.check(st, And(Le(zero, l), Le(l, h), Le(h, App(SInt, "str.len", base))), "slice", fc.pos(x), "slice bounds out of range")
		return App(SString, "str.substr", base, l, Sub(h, l))
	case KBStr:
		l := zero
		if lo != nil {
			l = *lo
		}
		h := BsLen(base)
		if hi != nil {
			h = *hi
		}
		fc.check(st, And(Le(zero, l), Le(l, h), Le(h, BsLen(base))), "slice", fc.pos(x), "slice bounds out of range")
		return fc.bstrSub(base, l, h, st)
	}
	fc.unsupported(st, "slice expression on "+base.Sort.String(), fc.pos(x))
	return base
}

func (fc *FuncCtx) bstrSub(base, l, h Term, st *St) Term {
	res := fc.fresh("sub", SBStr)
	st.assume(Eq(BsLen(res), Sub(h, l)))
	st.assume(T(fmt.Sprintf("(forall ((k Int)) (! (=> (and (<= 0 k) (< k (- %s %s))) (= (select (b_arr %s) k) (select (b_arr %s) (+ %s k)))) :pattern ((select (b_arr %s) k))))", h.S, l.S, res.S, base.S, l.S, res.S), SBool))
	return res
}

func (fc *FuncCtx) evalSelector(x *ast.SelectorExpr, st *St) Term {
	// package-qualified?
	if id, ok := x.X.(*ast.Ident); ok {
		if _, isPkg := fc.info().ObjectOf(id).(*types.PkgName); isPkg {
			obj := fc.info().ObjectOf(x.Sel)
			switch o := obj.(type) {
			case *types.Func:
				return fc.namedFuncValAt(o, x.Sel)
			case *types.Var:
				return fc.pkgVar(o, st)
			case *types.Const:
				if t, ok := fc.constTerm(o.Val(), o.Type(), st); ok {
					return t
				}
			}
			fc.unsupported(st, "qualified identifier "+id.Name+"."+x.Sel.Name, fc.pos(x))
			return T("0", SInt)
		}
	}
	if sel, ok := fc.info().Selections[x]; ok && sel.Kind() == types.MethodVal {
		// method value: handled by evalCall; as a value unsupported
		fc.unsupported(st, "method value", fc.pos(x))
		return T("0", SInt)
	}
	base := fc.eval(x.X, st)
	return fc.fieldOf(base, x.Sel.Name, fc.typeOf(x.X), st, x)
}

func (fc *FuncCtx) fieldOf(base Term, field string, bt types.Type, st *St, at ast.Node) Term {
	if base.Sort.Kind != KData {
		fc.unsupported(st, "field access on "+base.Sort.String(), fc.pos(at))
		return T("0", SInt)
	}
	d := fc.Sorts.dts[base.Sort.Name]
	if d == nil {
		fc.unsupported(st, "field access on unknown datatype", fc.pos(at))
		return T("0", SInt)
	}
	if !d.IsUnion {
		for _, f := range d.Ctors[0].Fields {
			if f.Name == d.Name+"_"+field {
				return fc.fieldTerm(f, base, bt, field)
			}
		}
	} else {
		_, ct := fc.ctorFor(bt)
		if ct != nil {
			for _, f := range ct.Fields {
				if f.Name == ct.Name+"_"+field {
					return fc.fieldTerm(f, base, bt, field)
				}
			}
		}
	}
	fc.unsupported(st, "unknown field "+field, fc.pos(at))
	return T("0", SInt)
}

func (fc *FuncCtx) fieldTerm(f dtField, base Term, bt types.Type, field string) Term {
	t := App(f.Sort, f.Name, base)
	// recover engine sort for function-typed fields
	return t
}

func (fc *FuncCtx) evalComposite(x *ast.CompositeLit, st *St) Term {
	t := fc.typeOf(x)
	so := fc.sortOf(t)
	switch u := t.Underlying().(type) {
	case *types.Struct:
		d, ct := fc.ctorFor(t)
		if ct == nil {
			fc.unsupported(st, "composite literal of unknown struct", fc.pos(x))
			return T("0", SInt)
		}
		_ = d
		args := make([]Term, len(ct.Fields))
		set := make([]bool, len(ct.Fields))
		for i, el := range x.Elts {
			if kv, ok := el.(*ast.KeyValueExpr); ok {
				name := kv.Key.(*ast.Ident).Name
				for j := 0; j < u.NumFields(); j++ {
					if u.Field(j).Name() == name {
						args[j] = fc.eval(kv.Value, st)
						set[j] = true
					}
				}
			} else {
				args[i] = fc.eval(el, st)
				set[i] = true
			}
		}
		for j := range args {
			if !set[j] {
				args[j] = fc.zeroOfSort(ct.Fields[j].Sort, u.Field(j).Type())
			}
			if args[j].Sort.Kind == KFunc || args[j].Sort.Kind == KTuple {
				args[j] = T("0", SInt)
			}
		}
		if len(args) == 0 {
			return T(ct.Name, so)
		}
		return App(so, ct.Name, args...)
	case *types.Slice:
		esort := fc.sortOf(u.Elem())
		var elems []Term
		for _, el := range x.Elts {
			if _, ok := el.(*ast.KeyValueExpr); ok {
				fc.unsupported(st, "keyed slice literal", fc.pos(x))
				return T("0", SInt)
			}
			elems = append(elems, fc.eval(el, st))
		}
		if fc.SliceMode == "heap" {
			return fc.allocSlice(st, esort, elems)
		}
		s := fc.fresh("lit", so)
		st.assume(Eq(seqLen(s), IntLit(int64(len(elems)))))
		for i, el := range elems {
			st.assume(Eq(seqAt(s, IntLit(int64(i))), el))
		}
		return s
	}
	fc.unsupported(st, "composite literal of "+t.String(), fc.pos(x))
	return T("0", SInt)
}

// allocSlice allocates a fresh array holding elems (len == cap == len(elems)).
func (fc *FuncCtx) allocSlice(st *St, esort *Sort, elems []Term) Term {
	r := fc.fresh("arr", SInt)
	st.assume(Eq(r, st.next))
	st.next = Add(r, IntLit(1))
	st.mine = Store(st.mine, r, True)
	h := fc.heapOf(st, esort)
	inner := Select(h, r)
	for i, el := range elems {
		inner = Store(inner, IntLit(int64(i)), el)
	}
	if len(elems) > 0 {
		st.heaps[esort.SMT()] = Store(h, r, inner)
	}
	n := IntLit(int64(len(elems)))
	return MkSlice(SliceOf(esort), r, IntLit(0), n, n)
}

// calleeFunc resolves the statically called function, if any.
func (fc *FuncCtx) calleeFunc(call *ast.CallExpr) *types.Func {
	fun := ast.Unparen(call.Fun)
	switch f := fun.(type) {
	case *ast.IndexExpr:
		fun = f.X
	case *ast.IndexListExpr:
		fun = f.X
	}
	switch f := fun.(type) {
	case *ast.Ident:
		if o, ok := fc.info().ObjectOf(f).(*types.Func); ok {
			return o
		}
	case *ast.SelectorExpr:
		if o, ok := fc.info().ObjectOf(f.Sel).(*types.Func); ok {
			return o
		}
	}
	return nil
}

func isMapIndex(fc *FuncCtx, e ast.Expr) bool {
	ie, ok := ast.Unparen(e).(*ast.IndexExpr)
	if !ok {
		return false
	}
	_, isMap := fc.typeOf(ie.X).Underlying().(*types.Map)
	return isMap
}

// execTypeSwitchAny: a type switch on an interface value outside the union encoding.  The dynamic
// type tests are uninterpreted predicates istype_<T>(v); the bound variable is unbox_<T>(v).
func (fc *FuncCtx) execTypeSwitchAny(x *ast.TypeSwitchStmt, v Term, st *St, c ctl) {
	inner := c
	inner.brk = c.next
	var def *ast.CaseClause
	var matched []Term
	for _, s := range x.Body.List {
		cc := s.(*ast.CaseClause)
		if cc.List == nil {
			def = cc
			continue
		}
		var conds []Term
		var single types.Type
		for _, te := range cc.List {
			t := fc.typeOf(te)
			if id, ok := te.(*ast.Ident); ok && id.Name == "nil" {
				conds = append(conds, Eq(v, fc.zeroOfSort(v.Sort, nil)))
				continue
			}
			fn := "istype_" + typeKeyName(t)
			fc.declareFun(fn, []*Sort{v.Sort}, SBool)
			conds = append(conds, And(App(SBool, fn, v), Not(Eq(v, fc.zeroOfSort(v.Sort, nil)))))
			single = t
		}
		cond := And(Or(conds...), Not(Or(matched...)))
		matched = append(matched, Or(conds...))
		s1 := st.clone()
		s1.assume(cond)
		if obj := fc.info().Implicits[cc]; obj != nil {
			if len(cc.List) == 1 && single != nil {
				so := fc.sortOf(single)
				if so.Kind == KUnint && so.Name == "Any" {
					s1.vars[obj] = v
				} else {
					fn := "unbox_" + mangle(so.SMT())
					fc.declareFun(fn, []*Sort{v.Sort}, so)
					s1.vars[obj] = App(so, fn, v)
				}
			} else {
				s1.vars[obj] = v
			}
		}
		fc.execStmts(cc.Body, 0, s1, inner)
	}
	s2 := st.clone()
	s2.assume(Not(Or(matched...)))
	if def != nil {
		if obj := fc.info().Implicits[def]; obj != nil {
			s2.vars[obj] = v
		}
		fc.execStmts(def.Body, 0, s2, inner)
	} else {
		c.next(s2)
	}
}

// collectMapLiteralValues evaluates the value expressions of a package-level map literal (identifiers of
// union constructor variables and constants only).
func (fc *FuncCtx) collectMapLiteralValues(o *types.Var, name string, st *St) {
	if fc.pkgMapVals == nil {
		fc.pkgMapVals = map[string][]Term{}
	}
	fc.pkgMapVals[name] = []Term{}
	p := fc.E.Pkgs[o.Pkg().Path()]
	if p == nil {
		return
	}
	for _, f := range p.Syntax {
		for _, d := range f.Decls {
			gd, ok := d.(*ast.GenDecl)
			if !ok || gd.Tok != token.VAR {
				continue
			}
			for _, sp := range gd.Specs {
				vs := sp.(*ast.ValueSpec)
				for i, nm := range vs.Names {
					if p.TypesInfo.Defs[nm] != o || i >= len(vs.Values) {
						continue
					}
					cl, ok := vs.Values[i].(*ast.CompositeLit)
					if !ok {
						return
					}
					var vals []Term
					fc.infoStack = append(fc.infoStack, p.TypesInfo)
					for _, el := range cl.Elts {
						kv, ok := el.(*ast.KeyValueExpr)
						if !ok {
							vals = nil
							break
						}
						if id, ok := kv.Value.(*ast.Ident); ok {
							vals = append(vals, fc.evalIdent(id, st))
						} else {
							vals = nil
							break
						}
					}
					fc.infoStack = fc.infoStack[:len(fc.infoStack)-1]
					fc.pkgMapVals[name] = vals
					return
				}
			}
		}
	}
}

// evalTypeAssert: x.(T) where T is a case struct of a union.  The operand is either a value of the union's
// interface type (the datatype value itself; a case-struct value is represented by the union value whose
// constructor is that case) or an `any` into which such a value was boxed (Go keeps the dynamic type when an
// interface value is converted to any).  ok <=> the dynamic type is the case struct.  Without comma-ok a
// failing assertion is a panic site.  Everything else stays unsupported (fail closed).
func (fc *FuncCtx) evalTypeAssert(x *ast.TypeAssertExpr, st *St, commaOk bool) []Term {
	dead := []Term{T("0", SInt), False}
	v := fc.eval(x.X, st)
	if st.dead {
		return dead
	}
	t := fc.typeOf(x.Type)
	if tp, ok := types.Unalias(t).(*types.TypeParam); ok {
		if gt, ok := fc.tsubstTypes[tp.Obj().Name()]; ok {
			t = gt
		} else {
			fc.unsupported(st, "type assertion to an uninstantiated type parameter", fc.pos(x))
			return dead
		}
	}
	d, ctor := fc.ctorFor(t)
	if d == nil || ctor == nil || !d.IsUnion {
		fc.unsupported(st, "type assertion to a type that is not a union case", fc.pos(x))
		return dead
	}
	us := fc.sortOf(t)
	var u, ok Term
	switch {
	case v.Sort.Kind == KData && v.Sort.Name == us.Name:
		u = v
		ok = T("((_ is "+ctor.Name+") "+v.S+")", SBool)
	case v.Sort.Kind == KUnint && v.Sort.Name == "Any":
		box := "box_" + mangle(us.SMT())
		fc.boxAny(fc.fresh("boxdecl", us)) // declares box_<sort>
		unbox := "unboxu_" + mangle(us.SMT())
		isbox := "isboxu_" + mangle(us.SMT())
		if !fc.declSet[unbox] {
			fc.declareFun(unbox, []*Sort{v.Sort}, us)
			fc.declareFun(isbox, []*Sort{v.Sort}, SBool)
			fc.addAxiom(fmt.Sprintf("(forall ((a %s)) (! (and (%s (%s a)) (= (%s (%s a)) a)) :pattern ((%s a))))", us.SMT(), isbox, box, unbox, box, box))
		}
		u = App(us, unbox, v)
		ok = And(App(SBool, isbox, v), T("((_ is "+ctor.Name+") "+u.S+")", SBool))
	default:
		fc.unsupported(st, "type assertion on a value that is neither the union nor any", fc.pos(x))
		return dead
	}
	if !commaOk {
		s2 := st.clone()
		s2.assume(Not(ok))
		fc.panicAt(s2, fc.pos(x), "failed type assertion")
		st.assume(ok)
		return []Term{u, True}
	}
	// with comma-ok a failed assertion yields the zero value of T: it is never looked at by the code verified
	// here before ok is tested; model it as an arbitrary value of the union sort
	res := fc.fresh("asserted", us)
	st.assume(Implies(ok, Eq(res, u)))
	return []Term{res, fc.nameIt(st, "ok", ok)}
}
