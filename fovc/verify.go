package fovc

import (
	"fmt"
	"go/ast"
	"go/types"
	"os"
	"runtime/debug"
	"sort"
	"strings"
)

type FuncResult struct {
	Key      string
	Obls     []*Obligation
	Assumed  []string
	Deps     []string
	SpecErrs []string
	Mode     string
	Trusted  bool
	Inline   bool
}

func callNameOf(call *ast.CallExpr) string {
	fun := ast.Unparen(call.Fun)
	switch f := fun.(type) {
	case *ast.IndexExpr:
		fun = f.X
	case *ast.IndexListExpr:
		fun = f.X
	}
	switch f := fun.(type) {
	case *ast.Ident:
		return f.Name
	case *ast.SelectorExpr:
		if id, ok := f.X.(*ast.Ident); ok {
			return id.Name + "." + f.Sel.Name
		}
		return f.Sel.Name
	}
	return ""
}

func (e *Engine) newFuncCtx(ref *FuncRef, con *Contract, prop string) *FuncCtx {
	fc := &FuncCtx{E: e, Ref: ref, Con: con, Pkg: ref.Pkg, Info: ref.Pkg.TypesInfo, Prop: prop, Sorts: newSortCtx(),
		declSet: map[string]bool{}, loopOrd: map[ast.Stmt]int{}, callOrd: map[*ast.CallExpr]int{}, callName: map[*ast.CallExpr]string{},
		Assumed: map[string]bool{}, Deps: map[string]bool{}, usedSpec: map[string]bool{}}
	fc.SliceMode = "value"
	fc.StrMode = "smt"
	if m := e.CS.PkgMode[ref.Pkg.Name]; m != nil {
		if v, ok := m["slices"]; ok {
			fc.SliceMode = v
		}
		if v, ok := m["strings"]; ok {
			fc.StrMode = v
		}
	}
	if con.Mode != nil {
		if v, ok := con.Mode["slices"]; ok {
			fc.SliceMode = v
		}
		if v, ok := con.Mode["strings"]; ok {
			fc.StrMode = v
		}
	}
	// ordinals
	nl := 0
	cnt := map[string]int{}
	if ref.Decl.Body != nil {
		ast.Inspect(ref.Decl.Body, func(n ast.Node) bool {
			switch x := n.(type) {
			case *ast.ForStmt:
				fc.loopOrd[x] = nl
				nl++
			case *ast.RangeStmt:
				fc.loopOrd[x] = nl
				nl++
			case *ast.CallExpr:
				nm := callNameOf(x)
				if nm != "" {
					fc.callName[x] = nm
					fc.callOrd[x] = cnt[nm]
					cnt[nm]++
				}
			}
			return true
		})
	}
	fc.nLoops = nl
	return fc
}

// VerifyFunc generates all obligations of one function under contract for one property.
func (e *Engine) VerifyFunc(key string, prop string) (res *FuncResult, err error) {
	defer func() {
		// fail closed on engine errors: the caller turns the error into an undischarged obligation
		if r := recover(); r != nil {
			res = nil
			err = fmt.Errorf("fovc internal error while generating the obligations of %s: %v", key, r)
			if os.Getenv("FOVC_DEBUG") != "" {
				debug.PrintStack()
			}
		}
	}()
	return e.verifyFunc(key, prop)
}

func (e *Engine) verifyFunc(key string, prop string) (*FuncResult, error) {
	con := e.CS.Funcs[key]
	if con == nil {
		return nil, fmt.Errorf("no contract for %s", key)
	}
	ref := e.FuncDecl[key]
	if ref == nil {
		return nil, fmt.Errorf("contract for %s but no such function in /repo", key)
	}
	res := &FuncResult{Key: key, Trusted: con.Trusted, Inline: con.Inline}
	if con.Trusted || con.Inline {
		return res, nil
	}
	fc := e.newFuncCtx(ref, con, prop)
	res.Mode = "slices=" + fc.SliceMode + " strings=" + fc.StrMode
	st := &St{vars: map[types.Object]Term{}, ghost: map[string]Term{}, heaps: map[string]Term{}, mdom: map[string]Term{}, mval: map[string]Term{},
		trn: map[string]Term{}, tra: map[string][]Term{}, glob: map[string]Term{}}
	fc.declare("next0", SInt)
	st.next = T("next0", SInt)
	st.assume(Le(IntLit(1), st.next))
	mineSort := ArrayOf(SInt, SBool)
	st.mine = T("((as const "+mineSort.SMT()+") false)", mineSort)
	// pre-scan slice element sorts so that frame() ranges over every heap of the function
	if fc.SliceMode == "heap" {
		for _, tv := range fc.Info.Types {
			_ = tv
		}
		ast.Inspect(ref.Decl, func(n ast.Node) bool {
			if ex, ok := n.(ast.Expr); ok {
				if tv, ok := fc.Info.Types[ex]; ok && tv.Type != nil {
					if sl, ok := tv.Type.Underlying().(*types.Slice); ok {
						fc.needHeap(fc.sortOf(sl.Elem()))
					}
				}
			}
			return true
		})
	}
	sig := ref.Obj.Type().(*types.Signature)
	bindParam := func(v *types.Var) {
		if v == nil || v.Name() == "_" || v.Name() == "" {
			return
		}
		so := fc.sortOf(v.Type())
		if so.Kind == KFunc {
			s, _ := v.Type().Underlying().(*types.Signature)
			fv := &FuncVal{Kind: "param", Name: v.Name(), Sig: s}
			st.vars[v] = Term{S: "0", Sort: so, Fn: fv}
			st.trn[fv.Name] = fc.entryTrn(fv.Name)
			st.tra[fv.Name] = fc.entryTra(fv)
			return
		}
		name := "p_" + sanitize(v.Name())
		fc.declare(name, so)
		t := T(name, so)
		st.vars[v] = t
		fc.assumeTypeInv(st, t, v.Type())
	}
	if sig.Recv() != nil {
		bindParam(sig.Recv())
	}
	for i := 0; i < sig.Params().Len(); i++ {
		bindParam(sig.Params().At(i))
	}
	for i := 0; i < sig.Results().Len(); i++ {
		r := sig.Results().At(i)
		if r.Name() != "" && r.Name() != "_" {
			st.vars[r] = fc.zero(r.Type(), st)
			fc.results = append(fc.results, r)
		}
	}
	for _, es := range fc.heapElems {
		fc.heapOf(st, es)
	}
	for _, g := range con.GhostIns {
		so := fc.sortOfSType(g.Type, nil)
		name := "gin_" + sanitize(g.Name)
		fc.declare(name, so)
		st.ghost[g.Name] = T(name, so)
	}
	for _, g := range con.Ghosts {
		so := fc.sortOfSType(g.Type, nil)
		if g.Init != nil {
			fc.entry = st
			st.ghost[g.Name] = fc.spec(g.Init, fc.newEnv(st))
		} else {
			st.ghost[g.Name] = fc.fresh("g_"+g.Name, so)
		}
	}
	fc.entry = st.clone()
	for _, r := range con.GhostAssume {
		// the initial value of a ghost variable is chosen by the prover (a witness); cover.entry guards satisfiability
		st.assume(fc.spec(r.Expr, fc.newEnv(st)))
	}
	fc.entry = st.clone()
	for _, r := range con.Requires {
		st.assume(fc.spec(r.Expr, fc.newEnv(st)))
	}
	fc.entry.pc = append([]Term(nil), st.pc...)
	// vacuity guard: the precondition is satisfiable
	fc.Obls = append(fc.Obls, &pendingObl{Name: key + "/cover.entry", Kind: "cover.entry", Props: con.Props, Clause: "vacuity guard: requires is satisfiable (query must NOT be unsat)", nDecl: -1, pc: append([]Term(nil), st.pc...), goal: False, MustFail: true})
	nret := 0
	doReturn := func(s *St, vals []Term) {
		if s.dead {
			return
		}
		if len(vals) == 0 && len(fc.results) > 0 {
			for _, r := range fc.results {
				vals = append(vals, s.vars[r])
			}
		}
		nret++
		if nret == 1 {
			fc.Obls = append(fc.Obls, &pendingObl{Name: key + "/cover.return", Kind: "cover.return", Props: con.Props, Clause: "vacuity guard: a normal return is reachable (query must NOT be unsat)", nDecl: -1, pc: append([]Term(nil), s.pc...), goal: False, MustFail: true})
		}
		env := fc.newEnv(s)
		for i, v := range vals {
			if i == 0 {
				env.bound["result"] = v
			}
			env.bound[fmt.Sprintf("result%d", i)] = v
		}
		if con.Panics == "iff" {
			fc.oblig(s, "post.no-panic", Not(fc.panicCond(s)), "normal return only if the panic condition is false: "+con.PanicsSrc, "", nil)
		}
		if con.Returns != nil && len(vals) > 0 {
			if con.ReturnsDef {
				// definitional: the spec function on the right is DEFINED as the value this pure, deterministic
				// function returns; nothing to prove, and the other ensures clauses are proved about that value
				s.assume(fc.equal(vals[0], fc.spec(con.Returns, env)))
				fc.Assumed["definitional returns clause of "+con.Key+": "+con.ReturnsSrc+" names the result of a pure deterministic function (it reads no global state)"] = true
			} else {
				fc.oblig(s, "post.returns", fc.equal(vals[0], fc.spec(con.Returns, env)), "returns "+con.ReturnsSrc, "", nil)
			}
		}
		for _, en := range con.Ensures {
			if !clauseFor(en.Props, prop) {
				continue
			}
			if en.Assumed {
				continue
			}
			t := fc.spec(en.Expr, env)
			fc.oblig(s, "post."+en.Name, t, "ensures "+en.Src, "", en.Props)
			if strings.HasPrefix(en.Name, "lemma-") {
				// a lemma clause is an obligation of its own; the clauses after it may use it (keeps each query small)
				s.assume(t)
			}
		}
	}
	if ref.Decl.Body == nil {
		return nil, fmt.Errorf("%s has no body", key)
	}
	fc.execStmts(ref.Decl.Body.List, 0, st, ctl{next: func(s *St) { doReturn(s, nil) }, ret: doReturn})
	if nret == 0 && con.Panics != "may" {
		// no normal return at all: still fine (e.g. always panics) but flag as vacuity
	}
	res.SpecErrs = fc.specErrs
	// assemble
	fc.emitAxioms()
	prelude := ""
	for _, po := range fc.Obls {
		if !propMatch(po.Props, prop, con.Props) {
			continue
		}
		if prelude == "" {
			prelude = fc.prelude()
		}
		o := &Obligation{Name: po.Name, Func: key, Kind: po.Kind, Props: po.Props, Clause: po.Clause, Pos: po.Pos, MustFail: po.MustFail}
		var b strings.Builder
		b.WriteString("(set-logic ALL)\n")
		b.WriteString(prelude)
		nd := po.nDecl
		if nd < 0 || nd > len(fc.decls) {
			nd = len(fc.decls)
		}
		// axioms are appended at the end of decls by emitAxioms: always include all declarations that are
		// not path-specific (decls hold only declarations, definitions and global axioms)
		for _, d := range fc.decls {
			b.WriteString(d)
			b.WriteString("\n")
		}
		_ = nd
		for _, p := range po.pc {
			b.WriteString("(assert " + p.S + ")\n")
		}
		b.WriteString("(assert (not " + po.goal.S + "))\n")
		b.WriteString("(check-sat)\n")
		o.SMT = b.String()
		o.Bytes = len(o.SMT)
		if po.goal.S == "true" && !po.MustFail {
			o.Result = "unsat"
			o.Solver = "trivial"
		}
		if len(fc.specErrs) > 0 {
			o.Detail = "spec errors: " + strings.Join(fc.specErrs, "; ")
		}
		res.Obls = append(res.Obls, o)
	}
	if len(fc.specErrs) > 0 {
		// fail closed: a contract that does not translate is an undischargeable obligation
		res.Obls = append(res.Obls, &Obligation{Name: key + "/contract.translates", Func: key, Kind: "contract", Props: con.Props, Clause: "contract must translate: " + strings.Join(fc.specErrs, "; "), SMT: "(check-sat)\n", Result: "", Detail: strings.Join(fc.specErrs, "; ")})
	}
	for a := range fc.Assumed {
		res.Assumed = append(res.Assumed, a)
	}
	sort.Strings(res.Assumed)
	for d := range fc.Deps {
		res.Deps = append(res.Deps, d)
	}
	sort.Strings(res.Deps)
	return res, nil
}

func clauseFor(props []string, prop string) bool {
	if len(props) == 0 || prop == "" {
		return true
	}
	for _, p := range props {
		if p == prop {
			return true
		}
	}
	return false
}

func propMatch(oblProps []string, prop string, funcProps []string) bool {
	if prop == "" {
		return true
	}
	ps := oblProps
	if len(ps) == 0 {
		ps = funcProps
	}
	for _, p := range ps {
		if p == prop {
			return true
		}
	}
	return false
}

// assumeTypeInv: what Go's type system / run time guarantees about an incoming value.
func (fc *FuncCtx) assumeTypeInv(st *St, t Term, gt types.Type) {
	switch t.Sort.Kind {
	case KSlice:
		fc.assumeValidSlice(st, t)
	case KBStr:
		st.assume(Le(IntLit(0), BsLen(t)))
		st.assume(T(fmt.Sprintf("(forall ((k Int)) (! (and (<= 0 (select (b_arr %s) k)) (< (select (b_arr %s) k) 256)) :pattern ((select (b_arr %s) k))))", t.S, t.S, t.S), SBool))
	case KInt:
		if b, ok := gt.Underlying().(*types.Basic); ok {
			switch b.Kind() {
			case types.Uint8:
				st.assume(And(Le(IntLit(0), t), Lt(t, IntLit(256))))
			case types.Int, types.Int64:
				st.assume(And(Le(IntLitS("(- 9223372036854775808)"), t), Le(t, IntLitS("9223372036854775807"))))
			}
		}
	case KMap:
		st.assume(And(Le(IntLit(0), t), Lt(t, st.next)))
	case KData:
		// struct with slice / string fields: invariants of the fields
		d := fc.Sorts.dts[t.Sort.Name]
		if d != nil && !d.IsUnion {
			stt, _ := gt.Underlying().(*types.Struct)
			for i, f := range d.Ctors[0].Fields {
				var ft types.Type = types.Typ[types.Invalid]
				if stt != nil && i < stt.NumFields() {
					ft = stt.Field(i).Type()
				}
				switch f.Sort.Kind {
				case KSlice, KBStr, KMap:
					fc.assumeTypeInv(st, App(f.Sort, f.Name, t), ft)
				case KData:
					if fd := fc.Sorts.dts[f.Sort.Name]; fd != nil && !fd.IsUnion && f.Sort.Name != t.Sort.Name {
						fc.assumeTypeInv(st, App(f.Sort, f.Name, t), ft)
					}
				case KInt:
					if stt != nil {
						fc.assumeTypeInv(st, App(f.Sort, f.Name, t), ft)
					}
				}
			}
		}
	}
}
