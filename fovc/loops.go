package fovc

import (
	"fmt"
	"go/ast"
	"go/token"
	"go/types"
	"sort"
)

// assignedIn collects the local variables assigned anywhere inside the nodes, and which global
// state components may change.
type modSet struct {
	vars   map[types.Object]bool
	heap   bool
	maps   bool
	bufs   bool
	traces bool
	glob   bool
	calls  bool
}

func (fc *FuncCtx) modifiedIn(nodes ...ast.Node) *modSet {
	ms := &modSet{vars: map[types.Object]bool{}}
	info := fc.info()
	var mark func(e ast.Expr)
	mark = func(e ast.Expr) {
		switch x := e.(type) {
		case *ast.Ident:
			if o := info.ObjectOf(x); o != nil {
				ms.vars[o] = true
			}
		case *ast.SelectorExpr:
			mark(x.X)
		case *ast.IndexExpr:
			t := fc.typeOf(x.X)
			switch t.Underlying().(type) {
			case *types.Map:
				ms.maps = true
			case *types.Slice:
				ms.heap = true
			}
		case *ast.ParenExpr:
			mark(x.X)
		}
	}
	for _, n := range nodes {
		if n == nil {
			continue
		}
		ast.Inspect(n, func(n ast.Node) bool {
			switch x := n.(type) {
			case *ast.AssignStmt:
				for _, l := range x.Lhs {
					mark(l)
				}
			case *ast.IncDecStmt:
				mark(x.X)
			case *ast.RangeStmt:
				if x.Key != nil {
					mark(x.Key)
				}
				if x.Value != nil {
					mark(x.Value)
				}
			case *ast.CallExpr:
				if id, ok := ast.Unparen(x.Fun).(*ast.Ident); ok {
					if b, ok := info.ObjectOf(id).(*types.Builtin); ok {
						if b.Name() == "append" {
							ms.heap = true
						}
						return true
					}
				}
				if tv, ok := info.Types[x.Fun]; ok && tv.IsType() {
					return true
				}
				ms.calls = true
				// method call on a local buffer variable mutates that variable
				if sel, ok := ast.Unparen(x.Fun).(*ast.SelectorExpr); ok {
					if s, ok := info.Selections[sel]; ok && s.Kind() == types.MethodVal {
						mark(sel.X)
						ms.bufs = true
					}
				}
			}
			return true
		})
	}
	if ms.calls {
		ms.heap = true
		ms.maps = true
		ms.bufs = true
		ms.traces = true
		ms.glob = true
	}
	return ms
}

// havoc replaces everything the loop may modify by fresh constants.
func (fc *FuncCtx) havoc(st *St, ms *modSet, ghosts []string) {
	var objs []types.Object
	for o := range ms.vars {
		if _, ok := st.vars[o]; ok {
			objs = append(objs, o)
		}
	}
	sort.Slice(objs, func(i, j int) bool { return objs[i].Pos() < objs[j].Pos() })
	for _, o := range objs {
		old := st.vars[o]
		if old.Sort.Kind == KFunc {
			continue
		}
		nv := fc.fresh(o.Name(), old.Sort)
		st.vars[o] = nv
		if nv.Sort.Kind == KSlice {
			// type invariant of a slice header is kept by every Go operation
			st.pendingValid = append(st.pendingValid, nv)
		}
	}
	for _, g := range ghosts {
		if old, ok := st.ghost[g]; ok {
			st.ghost[g] = fc.fresh("g_"+g, old.Sort)
		}
	}
	if ms.heap && fc.SliceMode == "heap" {
		pnext := st.next
		pmine := st.mine
		for _, es := range fc.heapElems {
			fc.heapOf(st, es)
			st.heaps[es.SMT()] = fc.fresh("heap", heapSort(es))
		}
		st.next = fc.fresh("next", SInt)
		st.mine = fc.fresh("mine", st.mine.Sort)
		st.assume(Le(pnext, st.next))
		// mine only grows, and only by refs allocated since
		st.assume(T(fmt.Sprintf("(forall ((r Int)) (! (and (=> (select %s r) (select %s r)) (=> (and (select %s r) (not (select %s r))) (and (<= %s r) (< r %s)))) :pattern ((select %s r))))",
			pmine.S, st.mine.S, st.mine.S, pmine.S, pnext.S, st.next.S, st.mine.S), SBool))
	} else if ms.maps || ms.bufs {
		pnext := st.next
		st.next = fc.fresh("next", SInt)
		st.assume(Le(pnext, st.next))
	}
	for _, v := range st.pendingValid {
		fc.assumeValidSlice(st, v)
	}
	st.pendingValid = nil
	if ms.maps {
		fc.materialiseStores(st, true, false)
		for k := range st.mdom {
			st.mdom[k] = fc.fresh("mdom", st.mdom[k].Sort)
		}
		for k := range st.mval {
			st.mval[k] = fc.fresh("mval", st.mval[k].Sort)
		}
	}
	if ms.bufs {
		fc.bufHeap(st)
		st.bufh = fc.fresh("bufh", st.bufh.Sort)
	}
	if ms.traces {
		for k := range st.trn {
			old := st.trn[k]
			st.trn[k] = fc.fresh("trn", SInt)
			st.assume(Le(old, st.trn[k]))
			var na []Term
			for _, t := range st.tra[k] {
				na = append(na, fc.fresh("tra", t.Sort))
			}
			st.tra[k] = na
		}
	}
	if ms.glob {
		fc.materialiseGlobals(st)
		for k := range st.glob {
			st.glob[k] = fc.fresh("glob_"+k, st.glob[k].Sort)
		}
	}
}

// ghostsAssignedIn: ghost variables with an anchor on a call inside the loop.
func (fc *FuncCtx) ghostsAssignedIn(n ast.Node) []string {
	set := map[string]bool{}
	ast.Inspect(n, func(n ast.Node) bool {
		if c, ok := n.(*ast.CallExpr); ok {
			name, ok := fc.callName[c]
			if !ok {
				return true
			}
			for _, ga := range fc.Con.GhostAts {
				if ga.Kind == "call" && ga.Callee == name && ga.Ord == fc.callOrd[c] {
					switch l := ga.LHS.(type) {
					case SIdent:
						set[l.Name] = true
					case SIndex:
						if id, ok := l.X.(SIdent); ok {
							set[id.Name] = true
						}
					}
				}
			}
		}
		return true
	})
	// ghosts assigned at the start of the body of a loop nested in (or equal to) n
	ast.Inspect(n, func(n ast.Node) bool {
		if st, ok := n.(ast.Stmt); ok {
			if ord, ok := fc.loopOrd[st]; ok {
				for _, ga := range fc.Con.GhostAts {
					if (ga.Kind == "body" || ga.Kind == "endbody") && ga.Ord == ord {
						switch l := ga.LHS.(type) {
						case SIdent:
							set[l.Name] = true
						case SIndex:
							if id, ok := l.X.(SIdent); ok {
								set[id.Name] = true
							}
						}
					}
				}
			}
		}
		return true
	})
	var res []string
	for k := range set {
		res = append(res, k)
	}
	sort.Strings(res)
	return res
}

// runBodyGhosts executes the ghost statements anchored at the start of a loop body.
func (fc *FuncCtx) runBodyGhosts(ord int, st *St) {
	for _, ga := range fc.Con.GhostAts {
		if ga.Kind == "body" && ga.Ord == ord {
			fc.execGhost(ga.LHS, ga.RHS, st, nil)
		}
	}
}

// runEndBodyGhosts: ghost statements anchored at the end of a loop body (after the post statement).
func (fc *FuncCtx) runEndBodyGhosts(ord int, st *St) {
	for _, ga := range fc.Con.GhostAts {
		if ga.Kind == "endbody" && ga.Ord == ord {
			fc.execGhost(ga.LHS, ga.RHS, st, nil)
		}
	}
}

type loopInfo struct {
	ord  int
	spec *LoopSpec
	pos  string
	name string
}

func (li *loopInfo) label() string {
	if li.name != "" {
		return li.name
	}
	return fmt.Sprintf("loop%d", li.ord)
}

func (fc *FuncCtx) loopSpecFor(s ast.Stmt, st *St) (*loopInfo, bool) {
	if _, own := fc.loopOrd[s]; !own {
		// a loop of a callee inlined at a call site: its invariant comes from the caller's contract
		if fc.inlineSite != "" && fc.inlineRef != nil {
			n := 0
			found := -1
			ast.Inspect(fc.inlineRef.Decl.Body, func(x ast.Node) bool {
				switch x.(type) {
				case *ast.ForStmt, *ast.RangeStmt:
					if x == ast.Node(s) {
						found = n
					}
					n++
				}
				return true
			})
			if found >= 0 {
				key := fmt.Sprintf("%s/%d", fc.inlineSite, found)
				if sp := fc.Con.CallLoops[key]; sp != nil {
					return &loopInfo{ord: 1000 + found, spec: sp, pos: fc.pos(s), name: "callsite." + fc.inlineSite + ".loop" + fmt.Sprint(found)}, true
				}
				fc.oblig(st, "callsite."+fc.inlineSite+".loop"+fmt.Sprint(found)+".missing-invariant", False, "a loop of a callee inlined at a call site needs a call-site invariant", fc.pos(s), nil)
				st.assume(False)
				return nil, false
			}
		}
		fc.unsupported(st, "loop inside an inlined function", fc.pos(s))
		return nil, false
	}
	ord := fc.loopOrd[s]
	sp := fc.Con.Loops[ord]
	if sp == nil {
		fc.oblig(st, fmt.Sprintf("loop%d.missing-invariant", ord), False, "every loop needs an invariant in the contract", fc.pos(s), nil)
		st.assume(False)
		return nil, false
	}
	return &loopInfo{ord: ord, spec: sp, pos: fc.pos(s)}, true
}

func (fc *FuncCtx) assertInvs(li *loopInfo, st *St, phase string, extraBound map[string]Term) {
	for _, inv := range li.spec.Invs {
		env := fc.newEnv(st)
		for k, v := range extraBound {
			env.bound[k] = v
		}
		fc.oblig(st, fmt.Sprintf("%s.%s.%s", li.label(), inv.Name, phase), fc.spec(inv.Expr, env), "invariant "+inv.Src, li.pos, inv.Props)
	}
}

func (fc *FuncCtx) assumeInvs(li *loopInfo, st *St, extraBound map[string]Term) {
	for _, inv := range li.spec.Invs {
		env := fc.newEnv(st)
		for k, v := range extraBound {
			env.bound[k] = v
		}
		st.assume(fc.spec(inv.Expr, env))
	}
}

func (fc *FuncCtx) execFor(x *ast.ForStmt, st *St, c ctl) {
	if x.Init != nil {
		fc.execStmt(x.Init, st, ctl{next: func(*St) {}, ret: c.ret})
		if st.dead {
			return
		}
	}
	li, ok := fc.loopSpecFor(x, st)
	if !ok {
		return
	}
	fc.assertInvs(li, st, "entry", nil)
	var nodes []ast.Node
	nodes = append(nodes, x.Body)
	if x.Post != nil {
		nodes = append(nodes, x.Post)
	}
	if x.Cond != nil {
		nodes = append(nodes, x.Cond)
	}
	ms := fc.modifiedIn(nodes...)
	head := st.clone()
	fc.havoc(head, ms, fc.ghostsAssignedIn(x))
	fc.assumeInvs(li, head, nil)
	var v0 Term
	if li.spec.Decreases != nil {
		v0 = fc.nameIt(head, "variant", fc.spec(li.spec.Decreases, fc.newEnv(head)))
	} else if fc.Con.Terminates {
		fc.oblig(head, fmt.Sprintf("loop%d.missing-decreases", li.ord), False, "a terminating function needs a decreases clause on every loop", li.pos, nil)
	}
	cond := True
	if x.Cond != nil {
		cond = fc.eval(x.Cond, head)
		if head.dead {
			return
		}
	}
	back := func(s *St) {
		if x.Post != nil {
			fc.execStmt(x.Post, s, ctl{next: func(*St) {}})
			if s.dead {
				return
			}
		}
		fc.runEndBodyGhosts(li.ord, s)
		fc.assertInvs(li, s, "preserve", nil)
		if li.spec.Decreases != nil {
			v1 := fc.spec(li.spec.Decreases, fc.newEnv(s))
			fc.oblig(s, li.label()+".decreases", And(Le(IntLit(0), v0), Lt(v1, v0)), "variant "+li.spec.DecSrc+" is bounded below and strictly decreases", li.pos, nil)
		}
	}
	body := head.clone()
	body.assume(cond)
	fc.runBodyGhosts(li.ord, body)
	fc.execStmts(x.Body.List, 0, body, ctl{next: back, cont: back, brk: c.next, ret: c.ret})
	if x.Cond != nil {
		exit := head.clone()
		exit.assume(Not(cond))
		c.next(exit)
	}
}

func (fc *FuncCtx) execRange(x *ast.RangeStmt, st *St, c ctl) {
	coll := fc.eval(x.X, st)
	if st.dead {
		return
	}
	li, ok := fc.loopSpecFor(x, st)
	if !ok {
		return
	}
	switch coll.Sort.Kind {
	case KMap:
		fc.execRangeMap(x, coll, li, st, c)
		return
	case KSlice, KSeq, KString, KBStr:
	default:
		fc.unsupported(st, "range over "+coll.Sort.String(), fc.pos(x))
		return
	}
	isStr := coll.Sort.Kind == KString || coll.Sort.Kind == KBStr
	if isStr && x.Value != nil {
		fc.unsupported(st, "range over string with a rune variable", fc.pos(x))
		return
	}
	var ln Term
	switch coll.Sort.Kind {
	case KSlice:
		ln = SlLen(coll)
	case KSeq:
		ln = seqLen(coll)
	case KString:
		ln = App(SInt, "str.len", coll)
	case KBStr:
		ln = BsLen(coll)
	}
	ln = fc.nameIt(st, "rangelen", ln)
	idxName := li.spec.Index
	var keyObj types.Object
	if id, ok := x.Key.(*ast.Ident); ok && id.Name != "_" {
		keyObj = fc.info().ObjectOf(id)
		if idxName == "" {
			idxName = id.Name
		}
	}
	if idxName == "" {
		idxName = "$i"
	}
	bind := func(i Term) map[string]Term { return map[string]Term{idxName: i} }
	i0 := IntLit(0)
	if keyObj != nil && x.Tok == token.ASSIGN {
		// Go leaves key unassigned before the first iteration; we only bind it inside
	}
	fc.assertInvs(li, st, "entry", bind(i0))
	ms := fc.modifiedIn(x.Body)
	head := st.clone()
	fc.havoc(head, ms, fc.ghostsAssignedIn(x))
	i := fc.fresh(sanitize(idxName), SInt)
	head.assume(And(Le(IntLit(0), i), Le(i, ln)))
	fc.assumeInvs(li, head, bind(i))
	body := head.clone()
	body.assume(Lt(i, ln))
	if keyObj != nil {
		body.vars[keyObj] = i
	}
	body.ghost[idxName] = i
	fc.runBodyGhosts(li.ord, body)
	if id, ok := x.Value.(*ast.Ident); ok && id.Name != "_" {
		if vo := fc.info().ObjectOf(id); vo != nil {
			switch coll.Sort.Kind {
			case KSlice:
				h := fc.heapOf(body, coll.Sort.Elem)
				body.vars[vo] = fc.nameIt(body, id.Name, Select(Select(h, SlArr(coll)), Add(SlOff(coll), i)))
			case KSeq:
				body.vars[vo] = seqAt(coll, i)
			}
		}
	}
	back := func(s *St) {
		var ni Term
		if isStr {
			// range over a string advances by the width of the rune at i: 1 for ASCII, 1..4 otherwise
			w := fc.fresh("w", SInt)
			var b Term
			if coll.Sort.Kind == KBStr {
				b = Select(BsArr(coll), i)
			} else {
				b = App(SInt, "str.to_code", App(SString, "str.at", coll, i))
			}
			s.assume(And(Le(IntLit(1), w), Le(w, IntLit(4)), Implies(Lt(b, IntLit(128)), Eq(w, IntLit(1))), Le(Add(i, w), ln)))
			ni = Add(i, w)
		} else {
			ni = Add(i, IntLit(1))
		}
		fc.assertInvs(li, s, "preserve", bind(ni))
	}
	fc.execStmts(x.Body.List, 0, body, ctl{next: back, cont: back, brk: c.next, ret: c.ret})
	exit := head.clone()
	exit.assume(Eq(i, ln))
	// after the loop the index name stays bound for later spec expressions through a ghost
	exit.ghost[idxName] = i
	c.next(exit)
}

// execRangeMap: Go's map iteration visits every entry exactly once in an unspecified order
// (assumed semantics, DESIGN §2.3).  Spec names: visited(k) is available in invariants.
func (fc *FuncCtx) execRangeMap(x *ast.RangeStmt, m Term, li *loopInfo, st *St, c ctl) {
	fc.Assumed["Go map range visits each present key exactly once, in an unspecified order, and terminates"] = true
	ks, vs := m.Sort.Key, m.Sort.Elem
	seenSort := ArrayOf(ks, SBool)
	seen0 := T("((as const "+seenSort.SMT()+") false)", seenSort)
	st.ghost["visited"] = seen0
	fc.assertInvs(li, st, "entry", nil)
	ms := fc.modifiedIn(x.Body)
	if ms.maps {
		// the loop body must not modify maps (in particular the one being iterated)
		if !ms.calls {
			fc.unsupported(st, "map modified while being ranged over", fc.pos(x))
			return
		}
	}
	head := st.clone()
	gh := append(fc.ghostsAssignedIn(x), "visited")
	ms.maps = false
	fc.havoc(head, ms, gh)
	dom := Select(fc.mapDom(head, ks, vs), m)
	val := Select(fc.mapVal(head, ks, vs), m)
	seen := head.ghost["visited"]
	// visited is a subset of the domain
	head.assume(T(fmt.Sprintf("(forall ((k %s)) (! (=> (select %s k) (select %s k)) :pattern ((select %s k))))", ks.SMT(), seen.S, dom.S, seen.S), SBool))
	fc.assumeInvs(li, head, nil)
	// one more entry
	body := head.clone()
	k := fc.fresh("key", ks)
	body.assume(And(Select(dom, k), Not(Select(seen, k))))
	if id, ok := x.Key.(*ast.Ident); ok && id.Name != "_" {
		if o := fc.info().ObjectOf(id); o != nil {
			body.vars[o] = k
		}
	}
	if id, ok := x.Value.(*ast.Ident); ok && id.Name != "_" {
		if o := fc.info().ObjectOf(id); o != nil {
			body.vars[o] = Select(val, k)
		}
	}
	body.ghost["curkey"] = k
	back := func(s *St) {
		s.ghost["visited"] = Store(s.ghost["visited"], k, True)
		delete(s.ghost, "curkey")
		fc.assertInvs(li, s, "preserve", nil)
	}
	fc.execStmts(x.Body.List, 0, body, ctl{next: back, cont: back, brk: c.next, ret: c.ret})
	exit := head.clone()
	exit.assume(T(fmt.Sprintf("(forall ((k %s)) (! (=> (select %s k) (select %s k)) :pattern ((select %s k))))", ks.SMT(), dom.S, seen.S, dom.S), SBool))
	c.next(exit)
}
