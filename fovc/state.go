package fovc

import (
	"fmt"
	"go/ast"
	"go/types"
	"sort"
	"strings"

	"golang.org/x/tools/go/packages"
)

// FuncVal is a function value known to the engine.
type FuncVal struct {
	Kind        string // "param" (callback parameter), "lit" (function literal), "named" (declared function), "spec"
	Name        string // param name / contract key
	Lit         *ast.FuncLit
	Env         *St // captured variables (by reference to the defining state's vars at capture time)
	Sig         *types.Signature
	Ref         *FuncRef
	Info        *types.Info           // type info of the package the literal / function lives in
	LikeChecked bool                  // wrap handed to a parameter with a like-contract
	TTypes      map[string]types.Type // Go types of the enclosing generic instantiation (for type assertions to T)
	TArgs       map[string]*Sort
	Inner       *FuncVal // Kind "wrap": a closure / named function passed as a callback, with a call-site trace
	// partial application produced by β-reduction is not needed: generated code uses literals.
}

type St struct {
	vars         map[types.Object]Term
	ghost        map[string]Term
	pc           []Term
	heaps        map[string]Term // elem sort SMT -> heap term
	hsort        map[string]*Sort
	next         Term
	mine         Term
	mdom         map[string]Term // "K|V" -> Array Int (Array K Bool)
	mval         map[string]Term
	msorts       map[string][2]*Sort
	trn          map[string]Term   // callback -> number of calls so far
	tra          map[string][]Term // callback -> per-parameter argument arrays (Array Int A)
	bufh         Term              // heap of *bytes.Buffer contents: Array Int String
	glob         map[string]Term   // abstract global state components (fs, stdout, ...), by name
	dead         bool
	pendingValid []Term
}

func (st *St) clone() *St {
	n := &St{next: st.next, mine: st.mine, bufh: st.bufh, dead: st.dead}
	n.vars = make(map[types.Object]Term, len(st.vars))
	for k, v := range st.vars {
		n.vars[k] = v
	}
	n.ghost = make(map[string]Term, len(st.ghost))
	for k, v := range st.ghost {
		n.ghost[k] = v
	}
	n.pc = append([]Term(nil), st.pc...)
	n.heaps = make(map[string]Term, len(st.heaps))
	for k, v := range st.heaps {
		n.heaps[k] = v
	}
	n.hsort = st.hsort
	n.mdom = make(map[string]Term, len(st.mdom))
	for k, v := range st.mdom {
		n.mdom[k] = v
	}
	n.mval = make(map[string]Term, len(st.mval))
	for k, v := range st.mval {
		n.mval[k] = v
	}
	n.msorts = st.msorts
	n.trn = make(map[string]Term, len(st.trn))
	for k, v := range st.trn {
		n.trn[k] = v
	}
	n.tra = make(map[string][]Term, len(st.tra))
	for k, v := range st.tra {
		n.tra[k] = append([]Term(nil), v...)
	}
	n.glob = make(map[string]Term, len(st.glob))
	for k, v := range st.glob {
		n.glob[k] = v
	}
	return n
}

func (st *St) assume(t Term) {
	if t.S == "true" {
		return
	}
	st.pc = append(st.pc, t)
	if t.S == "false" {
		st.dead = true
	}
}

// FuncCtx verifies one function.
type FuncCtx struct {
	E                                                         *Engine
	Ref                                                       *FuncRef
	Con                                                       *Contract
	Pkg                                                       *packages.Package
	Info                                                      *types.Info
	Prop                                                      string
	SliceMode                                                 string
	StrMode                                                   string
	Sorts                                                     *SortCtx
	decls                                                     []string
	declSet                                                   map[string]bool
	axioms                                                    []string // SMT assertions valid in every query (spec axioms instantiated lazily)
	Obls                                                      []*pendingObl
	n                                                         int
	loopOrd                                                   map[ast.Stmt]int
	callOrd                                                   map[*ast.CallExpr]int
	callName                                                  map[*ast.CallExpr]string
	tsubst                                                    map[string]*Sort
	entry                                                     *St
	heapElems                                                 []*Sort
	mapUni                                                    []mapTy
	likeVisiting                                              map[string]bool
	tsubstTypes                                               map[string]types.Type
	unknownCalls                                              int
	specDecl                                                  map[string]bool
	inlineDep                                                 int
	unsup                                                     int
	Assumed                                                   map[string]bool // trusted contracts / external assumptions used
	infoStack                                                 []*types.Info
	results                                                   []types.Object
	usedSpec                                                  map[string]bool
	overflow                                                  bool
	nwrite, nchk, npanic, nanon, qn, pureDepth, nLoops, nwrap int
	onPanic                                                   func(*St, string)
	inlStack                                                  []string
	specErrs                                                  []string
	pendingAxioms                                             bool
	lastCalleeGhosts                                          map[string]Term
	inlineSite                                                string
	pkgMapVals                                                map[string][]Term
	pendingPass                                               map[string]Term
	fvTArgs                                                   map[string]*Sort
	fvSig                                                     *types.Signature
	inlineRef                                                 *FuncRef
	Deps                                                      map[string]bool
}

type pendingObl struct {
	Name     string
	Kind     string
	Props    []string
	Clause   string
	Pos      string
	nDecl    int
	pc       []Term
	goal     Term
	MustFail bool
}

func (fc *FuncCtx) fresh(hint string, so *Sort) Term {
	fc.n++
	name := fmt.Sprintf("%s!%d", sanitize(hint), fc.n)
	fc.declare(name, so)
	return T(name, so)
}

func sanitize(s string) string {
	var b strings.Builder
	for _, c := range s {
		if c >= 'a' && c <= 'z' || c >= 'A' && c <= 'Z' || c >= '0' && c <= '9' || c == '_' {
			b.WriteRune(c)
		} else {
			b.WriteRune('_')
		}
	}
	if b.Len() == 0 {
		return "v"
	}
	return b.String()
}

func (fc *FuncCtx) declare(name string, so *Sort) {
	if fc.declSet[name] {
		return
	}
	fc.declSet[name] = true
	fc.decls = append(fc.decls, fmt.Sprintf("(declare-const %s %s)", name, so.SMT()))
}

func (fc *FuncCtx) declareFun(name string, args []*Sort, ret *Sort) {
	if fc.declSet[name] {
		return
	}
	fc.declSet[name] = true
	var as []string
	for _, a := range args {
		as = append(as, a.SMT())
	}
	fc.decls = append(fc.decls, fmt.Sprintf("(declare-fun %s (%s) %s)", name, strings.Join(as, " "), ret.SMT()))
}

func (fc *FuncCtx) addAxiom(s string) {
	fc.decls = append(fc.decls, "(assert "+s+")")
}

func (fc *FuncCtx) needHeap(e *Sort) {
	for _, h := range fc.heapElems {
		if h.SMT() == e.SMT() {
			return
		}
	}
	fc.heapElems = append(fc.heapElems, e)
}

func heapSort(e *Sort) *Sort { return ArrayOf(SInt, ArrayOf(SInt, e)) }

func (fc *FuncCtx) heapOf(st *St, e *Sort) Term {
	k := e.SMT()
	if h, ok := st.heaps[k]; ok {
		return h
	}
	// a heap first touched now: it has been unchanged since entry
	fc.needHeap(e)
	name := "heap0_" + mangle(k)
	fc.declare(name, heapSort(e))
	h := T(name, heapSort(e))
	st.heaps[k] = h
	return h
}

func (fc *FuncCtx) entryHeap(e *Sort) Term {
	name := "heap0_" + mangle(e.SMT())
	fc.declare(name, heapSort(e))
	return T(name, heapSort(e))
}

func mkey(k, v *Sort) string { return k.SMT() + "|" + v.SMT() }

func (fc *FuncCtx) mapDom(st *St, k, v *Sort) Term {
	key := mkey(k, v)
	if t, ok := st.mdom[key]; ok {
		return t
	}
	name := "mdom0_" + mangle(key)
	so := ArrayOf(SInt, ArrayOf(k, SBool))
	fc.declare(name, so)
	st.mdom[key] = T(name, so)
	return st.mdom[key]
}
func (fc *FuncCtx) mapVal(st *St, k, v *Sort) Term {
	key := mkey(k, v)
	if t, ok := st.mval[key]; ok {
		return t
	}
	name := "mval0_" + mangle(key)
	so := ArrayOf(SInt, ArrayOf(k, v))
	fc.declare(name, so)
	st.mval[key] = T(name, so)
	return st.mval[key]
}

func (fc *FuncCtx) bufHeap(st *St) Term {
	if st.bufh.S == "" {
		so := ArrayOf(SInt, fc.strSort())
		fc.declare("bufh0", so)
		st.bufh = T("bufh0", so)
	}
	return st.bufh
}

func (fc *FuncCtx) strSort() *Sort {
	if fc.StrMode == "bytes" {
		return SBStr
	}
	return SString
}

func (fc *FuncCtx) globOf(st *St, name string, so *Sort) Term {
	if t, ok := st.glob[name]; ok {
		return t
	}
	n := "glob0_" + name
	fc.declare(n, so)
	st.glob[name] = T(n, so)
	return st.glob[name]
}

// oblig records an obligation: pc => goal.
func (fc *FuncCtx) oblig(st *St, kind string, goal Term, clause string, pos string, props []string) {
	if st.dead {
		return
	}
	if goal.S == "true" {
		// still count it: trivially discharged obligations are recorded with a trivial query
	}
	name := fc.Ref.Key + "/" + kind
	// disambiguate duplicates (same site reached on several paths)
	cnt := 0
	for _, o := range fc.Obls {
		if o.Name == name || strings.HasPrefix(o.Name, name+"@") {
			cnt++
		}
	}
	if cnt > 0 {
		name = fmt.Sprintf("%s@%d", name, cnt)
	}
	if props == nil {
		props = fc.Con.Props
	}
	fc.Obls = append(fc.Obls, &pendingObl{Name: name, Kind: kind, Props: props, Clause: clause, Pos: pos, nDecl: len(fc.decls), pc: append([]Term(nil), st.pc...), goal: goal})
}

func (fc *FuncCtx) unsupported(st *St, what string, pos string) {
	fc.unsup++
	fc.oblig(st, fmt.Sprintf("unsupported#%d", fc.unsup), False, "unsupported construct: "+what, pos, nil)
	st.assume(False)
}

func (fc *FuncCtx) pos(n ast.Node) string {
	if n == nil {
		return ""
	}
	p := fc.E.Fset.Position(n.Pos())
	return fmt.Sprintf("%s:%d", strings.TrimPrefix(p.Filename, fc.E.RepoDir+"/"), p.Line)
}

// mergeStates merges the surviving outcome states of a fork that started from base (whose pc is a
// prefix of every outcome's pc) into base.  extra[i] are per-outcome value tuples merged alongside.
func (fc *FuncCtx) mergeStates(base *St, outs []*St, extra [][]Term) []Term {
	nb := len(base.pc)
	var live []*St
	var liveX [][]Term
	for i, o := range outs {
		if o.dead {
			continue
		}
		live = append(live, o)
		if extra != nil {
			liveX = append(liveX, extra[i])
		}
	}
	if len(live) == 0 {
		base.assume(False)
		if extra != nil && len(extra) > 0 {
			return extra[0]
		}
		return nil
	}
	if len(live) == 1 {
		o := live[0]
		*base = *o.clone()
		if extra != nil {
			return liveX[0]
		}
		return nil
	}
	guards := make([]Term, len(live))
	for i, o := range live {
		guards[i] = And(o.pc[nb:]...)
	}
	res := base.clone()
	res.pc = append([]Term(nil), base.pc[:nb]...)
	// a long guard is named by a Boolean constant, so that the per-component implications below stay small
	// (nested forks would otherwise copy the whole guard once per merged component and per nesting level)
	for i := range guards {
		if len(guards[i].S) > 400 {
			b := fc.fresh("grd", SBool)
			res.assume(Eq(b, guards[i]))
			guards[i] = b
		}
	}
	res.assume(Or(guards...))
	mergeTerm := func(hint string, vals []Term) Term {
		same := true
		for _, v := range vals[1:] {
			if v.S != vals[0].S {
				same = false
			}
		}
		if same {
			return vals[0]
		}
		if vals[0].Sort.Kind == KFunc || vals[0].Sort.Kind == KTuple {
			return vals[0]
		}
		m := fc.fresh(hint, vals[0].Sort)
		m.Fn = vals[0].Fn
		for i, v := range vals {
			res.assume(Implies(guards[i], Eq(m, v)))
		}
		return m
	}
	// vars: only those present in all live states
	for obj := range live[0].vars {
		vals := make([]Term, 0, len(live))
		ok := true
		for _, o := range live {
			v, has := o.vars[obj]
			if !has {
				ok = false
				break
			}
			vals = append(vals, v)
		}
		if !ok {
			delete(res.vars, obj)
			continue
		}
		res.vars[obj] = mergeTerm(obj.Name(), vals)
	}
	mergeMap := func(get func(*St) map[string]Term, set func(string, Term), hint string, entryPrefix string) {
		keys := map[string]bool{}
		for _, o := range live {
			for k := range get(o) {
				keys[k] = true
			}
		}
		var ks []string
		for k := range keys {
			ks = append(ks, k)
		}
		sort.Strings(ks)
		for _, k := range ks {
			vals := make([]Term, 0, len(live))
			ok := true
			for _, o := range live {
				v, has := get(o)[k]
				if !has {
					ok = false
					break
				}
				vals = append(vals, v)
			}
			if !ok {
				// a component is created lazily: a path that never touched it still has its entry value,
				// the entry constant <prefix><name>
				var sample Term
				for _, o := range live {
					if v, has := get(o)[k]; has {
						sample = v
						break
					}
				}
				vals = vals[:0]
				for _, o := range live {
					if v, has := get(o)[k]; has {
						vals = append(vals, v)
					} else if entryPrefix != "" {
						name := entryPrefix + k
						if entryPrefix != "glob0_" && entryPrefix != "trn0_" {
							name = entryPrefix + mangle(k)
						}
						fc.declare(name, sample.Sort)
						vals = append(vals, T(name, sample.Sort))
					} else {
						vals = append(vals, sample)
					}
				}
			}
			set(k, mergeTerm(hint+"_"+mangle(k), vals))
		}
	}
	mergeMap(func(s *St) map[string]Term { return s.ghost }, func(k string, t Term) { res.ghost[k] = t }, "g", "")
	mergeMap(func(s *St) map[string]Term { return s.heaps }, func(k string, t Term) { res.heaps[k] = t }, "heap", "heap0_")
	mergeMap(func(s *St) map[string]Term { return s.mdom }, func(k string, t Term) { res.mdom[k] = t }, "mdom", "mdom0_")
	mergeMap(func(s *St) map[string]Term { return s.mval }, func(k string, t Term) { res.mval[k] = t }, "mval", "mval0_")
	mergeMap(func(s *St) map[string]Term { return s.trn }, func(k string, t Term) { res.trn[k] = t }, "trn", "")
	mergeMap(func(s *St) map[string]Term { return s.glob }, func(k string, t Term) { res.glob[k] = t }, "glob", "glob0_")
	// traces
	{
		keys := map[string]bool{}
		for _, o := range live {
			for k := range o.tra {
				keys[k] = true
			}
		}
		for k := range keys {
			n := len(live[0].tra[k])
			arrs := make([]Term, n)
			for j := 0; j < n; j++ {
				vals := make([]Term, 0, len(live))
				for _, o := range live {
					if len(o.tra[k]) > j {
						vals = append(vals, o.tra[k][j])
					}
				}
				if len(vals) == len(live) {
					arrs[j] = mergeTerm("tra_"+k, vals)
				} else if len(vals) > 0 {
					arrs[j] = vals[0]
				}
			}
			res.tra[k] = arrs
		}
	}
	{
		vals := make([]Term, len(live))
		for i, o := range live {
			vals[i] = o.next
		}
		res.next = mergeTerm("next", vals)
		for i, o := range live {
			vals[i] = o.mine
		}
		res.mine = mergeTerm("mine", vals)
		hasBuf := false
		for _, o := range live {
			if o.bufh.S != "" {
				hasBuf = true
			}
		}
		if hasBuf {
			bv := make([]Term, 0, len(live))
			for _, o := range live {
				if o.bufh.S == "" {
					bv = append(bv, fc.bufHeap(o))
				} else {
					bv = append(bv, o.bufh)
				}
			}
			res.bufh = mergeTerm("bufh", bv)
		}
	}
	var merged []Term
	if extra != nil && len(liveX[0]) > 0 {
		merged = make([]Term, len(liveX[0]))
		for j := range liveX[0] {
			vals := make([]Term, len(live))
			for i := range live {
				vals[i] = liveX[i][j]
			}
			merged[j] = mergeTerm("r", vals)
		}
	}
	*base = *res
	return merged
}
