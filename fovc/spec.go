package fovc

import (
	"fmt"
	"strings"
	"unicode"
)

// Spec expression AST (Go expression syntax + forall/exists/==>/<==>/old, DESIGN §2.4).

type SExpr interface{ sexpr() }

type (
	SIdent struct{ Name string }
	SInt_  struct{ V string }
	SStr   struct{ V string }
	SChar  struct{ V int }
	SBoolL struct{ V bool }
	SBin   struct {
		Op   string
		L, R SExpr
	}
	SUn struct {
		Op string
		X  SExpr
	}
	SCall struct {
		Fn   string // possibly qualified: pkg.Name
		Args []SExpr
	}
	SIndex  struct{ X, I SExpr }
	SSliceE struct{ X, Lo, Hi SExpr }
	SField  struct {
		X SExpr
		F string
	}
	SQuant struct {
		Forall   bool
		Vars     []SVar
		Body     SExpr
		Triggers [][]SExpr // optional: forall x T :: {f(x), g(x)} {h(x)} body
	}
)

type SVar struct {
	Name string
	Type *SType
}

// SType is a spec-level type expression.
type SType struct {
	Name string // int, bool, string, byte, ref, or a Go type name (possibly qualified)
	Key  *SType // map[Key]Elem
	Elem *SType // map or []Elem
	Kind string // "", "map", "slice"
	Args []*SType
}

func (SIdent) sexpr()  {}
func (SInt_) sexpr()   {}
func (SStr) sexpr()    {}
func (SChar) sexpr()   {}
func (SBoolL) sexpr()  {}
func (SBin) sexpr()    {}
func (SUn) sexpr()     {}
func (SCall) sexpr()   {}
func (SIndex) sexpr()  {}
func (SSliceE) sexpr() {}
func (SField) sexpr()  {}
func (SQuant) sexpr()  {}

type stok struct {
	k string // id int str chr op eof
	v string
}

type slexer struct {
	src  string
	pos  int
	toks []stok
}

var sops = []string{"<==>", "==>", "::", "&&", "||", "==", "!=", "<=", ">=", "<", ">", "+", "-", "*", "/", "%", "!", "(", ")", "[", "]", ",", ".", ":", "{", "}", "="}

func slex(src string) ([]stok, error) {
	var toks []stok
	i := 0
	for i < len(src) {
		c := src[i]
		if c == ' ' || c == '\t' || c == '\n' {
			i++
			continue
		}
		if unicode.IsLetter(rune(c)) || c == '_' || c == '$' {
			j := i
			for j < len(src) && (unicode.IsLetter(rune(src[j])) || unicode.IsDigit(rune(src[j])) || src[j] == '_' || src[j] == '$') {
				j++
			}
			toks = append(toks, stok{"id", src[i:j]})
			i = j
			continue
		}
		if unicode.IsDigit(rune(c)) {
			j := i
			for j < len(src) && unicode.IsDigit(rune(src[j])) {
				j++
			}
			toks = append(toks, stok{"int", src[i:j]})
			i = j
			continue
		}
		if c == '"' {
			j := i + 1
			var b strings.Builder
			for j < len(src) && src[j] != '"' {
				if src[j] == '\\' && j+1 < len(src) {
					j++
					switch src[j] {
					case 'n':
						b.WriteByte('\n')
					case 't':
						b.WriteByte('\t')
					case '\\':
						b.WriteByte('\\')
					case '"':
						b.WriteByte('"')
					default:
						return nil, fmt.Errorf("bad escape \\%c in spec string", src[j])
					}
					j++
					continue
				}
				b.WriteByte(src[j])
				j++
			}
			if j >= len(src) {
				return nil, fmt.Errorf("unterminated string in spec: %s", src)
			}
			toks = append(toks, stok{"str", b.String()})
			i = j + 1
			continue
		}
		if c == '\'' {
			// char literal
			j := i + 1
			var v int
			if j < len(src) && src[j] == '\\' {
				j++
				switch src[j] {
				case 'n':
					v = '\n'
				case 't':
					v = '\t'
				case '\\':
					v = '\\'
				case '\'':
					v = '\''
				case '"':
					v = '"'
				default:
					return nil, fmt.Errorf("bad char escape")
				}
				j++
			} else {
				v = int(src[j])
				j++
			}
			if j >= len(src) || src[j] != '\'' {
				return nil, fmt.Errorf("bad char literal in %s", src)
			}
			toks = append(toks, stok{"chr", fmt.Sprint(v)})
			i = j + 1
			continue
		}
		matched := false
		for _, op := range sops {
			if strings.HasPrefix(src[i:], op) {
				toks = append(toks, stok{"op", op})
				i += len(op)
				matched = true
				break
			}
		}
		if !matched {
			return nil, fmt.Errorf("spec lexer: unexpected %q in %q", c, src)
		}
	}
	toks = append(toks, stok{"eof", ""})
	return toks, nil
}

type sparser struct {
	toks []stok
	p    int
	src  string
}

func ParseSpec(src string) (e SExpr, err error) {
	toks, err := slex(src)
	if err != nil {
		return nil, err
	}
	ps := &sparser{toks: toks, src: src}
	defer func() {
		if r := recover(); r != nil {
			err = fmt.Errorf("spec parse error: %v in %q", r, src)
		}
	}()
	e = ps.expr()
	if ps.cur().k != "eof" {
		panic(fmt.Sprintf("trailing token %q", ps.cur().v))
	}
	return e, nil
}

// ParseGhostStmt parses "lhs = rhs" where lhs is ident or ident[idx].
func ParseGhostStmt(src string) (lhs SExpr, rhs SExpr, err error) {
	toks, err := slex(src)
	if err != nil {
		return nil, nil, err
	}
	ps := &sparser{toks: toks, src: src}
	defer func() {
		if r := recover(); r != nil {
			err = fmt.Errorf("ghost stmt parse error: %v in %q", r, src)
		}
	}()
	lhs = ps.postfix()
	ps.expect("=")
	rhs = ps.expr()
	if ps.cur().k != "eof" {
		panic("trailing token")
	}
	return
}

func ParseSType(src string) (t *SType, err error) {
	toks, err := slex(src)
	if err != nil {
		return nil, err
	}
	ps := &sparser{toks: toks, src: src}
	defer func() {
		if r := recover(); r != nil {
			err = fmt.Errorf("type parse error: %v in %q", r, src)
		}
	}()
	t = ps.stype()
	if ps.cur().k != "eof" {
		panic("trailing token in type")
	}
	return
}

func (p *sparser) cur() stok { return p.toks[p.p] }
func (p *sparser) peek(n int) stok {
	if p.p+n < len(p.toks) {
		return p.toks[p.p+n]
	}
	return stok{"eof", ""}
}
func (p *sparser) isOp(v string) bool { return p.cur().k == "op" && p.cur().v == v }
func (p *sparser) isId(v string) bool { return p.cur().k == "id" && p.cur().v == v }
func (p *sparser) expect(v string) {
	if !p.isOp(v) {
		panic(fmt.Sprintf("expected %q, got %q", v, p.cur().v))
	}
	p.p++
}

func (p *sparser) stype() *SType {
	if p.isId("map") {
		p.p++
		p.expect("[")
		k := p.stype()
		p.expect("]")
		e := p.stype()
		return &SType{Kind: "map", Key: k, Elem: e}
	}
	if p.isOp("[") {
		p.p++
		p.expect("]")
		e := p.stype()
		return &SType{Kind: "slice", Elem: e}
	}
	if p.cur().k != "id" {
		panic("type expected, got " + p.cur().v)
	}
	name := p.cur().v
	p.p++
	if p.isOp(".") {
		p.p++
		name = name + "." + p.cur().v
		p.p++
	}
	t := &SType{Name: name}
	if p.isOp("[") {
		p.p++
		for {
			t.Args = append(t.Args, p.stype())
			if p.isOp(",") {
				p.p++
				continue
			}
			break
		}
		p.expect("]")
	}
	return t
}

func (p *sparser) expr() SExpr {
	if p.isId("forall") || p.isId("exists") {
		fa := p.cur().v == "forall"
		p.p++
		var vars []SVar
		for {
			if p.cur().k != "id" {
				panic("quantified variable expected")
			}
			n := p.cur().v
			p.p++
			t := p.stype()
			vars = append(vars, SVar{n, t})
			if p.isOp(",") {
				p.p++
				continue
			}
			break
		}
		p.expect("::")
		var trigs [][]SExpr
		for p.isOp("{") {
			p.p++
			var one []SExpr
			for {
				one = append(one, p.expr())
				if p.isOp(",") {
					p.p++
					continue
				}
				break
			}
			p.expect("}")
			trigs = append(trigs, one)
		}
		body := p.expr()
		return SQuant{fa, vars, body, trigs}
	}
	return p.iff()
}

func (p *sparser) iff() SExpr {
	l := p.imp()
	for p.isOp("<==>") {
		p.p++
		r := p.imp()
		l = SBin{"<==>", l, r}
	}
	return l
}

func (p *sparser) imp() SExpr {
	l := p.or()
	if p.isOp("==>") {
		p.p++
		var r SExpr
		if p.isId("forall") || p.isId("exists") {
			r = p.expr()
		} else {
			r = p.imp()
		}
		return SBin{"==>", l, r}
	}
	return l
}

func (p *sparser) or() SExpr {
	l := p.and()
	for p.isOp("||") {
		p.p++
		r := p.and()
		l = SBin{"||", l, r}
	}
	return l
}

func (p *sparser) and() SExpr {
	l := p.cmp()
	for p.isOp("&&") {
		p.p++
		var r SExpr
		if p.isId("forall") || p.isId("exists") {
			r = p.expr()
		} else {
			r = p.cmp()
		}
		l = SBin{"&&", l, r}
	}
	return l
}

func isCmpOp(s string) bool {
	switch s {
	case "==", "!=", "<", "<=", ">", ">=":
		return true
	}
	return false
}

func (p *sparser) cmp() SExpr {
	l := p.add()
	var res SExpr
	for p.cur().k == "op" && isCmpOp(p.cur().v) {
		op := p.cur().v
		p.p++
		r := p.add()
		c := SBin{op, l, r}
		if res == nil {
			res = c
		} else {
			res = SBin{"&&", res, c}
		}
		l = r
	}
	if res == nil {
		return l
	}
	return res
}

func (p *sparser) add() SExpr {
	l := p.mul()
	for p.isOp("+") || p.isOp("-") {
		op := p.cur().v
		p.p++
		r := p.mul()
		l = SBin{op, l, r}
	}
	return l
}

func (p *sparser) mul() SExpr {
	l := p.unary()
	for p.isOp("*") || p.isOp("/") || p.isOp("%") {
		op := p.cur().v
		p.p++
		r := p.unary()
		l = SBin{op, l, r}
	}
	return l
}

func (p *sparser) unary() SExpr {
	if p.isOp("!") {
		p.p++
		return SUn{"!", p.unary()}
	}
	if p.isOp("-") {
		p.p++
		return SUn{"-", p.unary()}
	}
	return p.postfix()
}

func (p *sparser) postfix() SExpr {
	e := p.primary()
	for {
		switch {
		case p.isOp("["):
			p.p++
			if p.isOp(":") {
				p.p++
				hi := p.expr()
				p.expect("]")
				e = SSliceE{e, nil, hi}
				continue
			}
			i := p.expr()
			if p.isOp(":") {
				p.p++
				var hi SExpr
				if !p.isOp("]") {
					hi = p.expr()
				}
				p.expect("]")
				e = SSliceE{e, i, hi}
				continue
			}
			p.expect("]")
			e = SIndex{e, i}
		case p.isOp("."):
			p.p++
			if p.cur().k != "id" {
				panic("field name expected")
			}
			f := p.cur().v
			p.p++
			if p.isOp("(") {
				// qualified call pkg.Fn(...)
				if id, ok := e.(SIdent); ok {
					p.p++
					args := p.args()
					e = SCall{id.Name + "." + f, args}
					continue
				}
				panic("method calls are not supported in specs")
			}
			e = SField{e, f}
		default:
			return e
		}
	}
}

func (p *sparser) args() []SExpr {
	var args []SExpr
	if p.isOp(")") {
		p.p++
		return args
	}
	for {
		args = append(args, p.expr())
		if p.isOp(",") {
			p.p++
			continue
		}
		break
	}
	p.expect(")")
	return args
}

func (p *sparser) primary() SExpr {
	t := p.cur()
	switch t.k {
	case "int":
		p.p++
		return SInt_{t.v}
	case "str":
		p.p++
		return SStr{t.v}
	case "chr":
		p.p++
		var v int
		fmt.Sscan(t.v, &v)
		return SChar{v}
	case "id":
		p.p++
		if t.v == "true" {
			return SBoolL{true}
		}
		if t.v == "false" {
			return SBoolL{false}
		}
		if p.isOp("(") {
			p.p++
			args := p.args()
			return SCall{t.v, args}
		}
		return SIdent{t.v}
	case "op":
		if t.v == "(" {
			p.p++
			e := p.expr()
			p.expect(")")
			return e
		}
	}
	panic(fmt.Sprintf("unexpected token %q", t.v))
}

func SpecString(e SExpr) string {
	switch x := e.(type) {
	case SIdent:
		return x.Name
	case SInt_:
		return x.V
	case SStr:
		return fmt.Sprintf("%q", x.V)
	case SChar:
		return fmt.Sprintf("%q", rune(x.V))
	case SBoolL:
		return fmt.Sprint(x.V)
	case SBin:
		return "(" + SpecString(x.L) + " " + x.Op + " " + SpecString(x.R) + ")"
	case SUn:
		return x.Op + SpecString(x.X)
	case SCall:
		var as []string
		for _, a := range x.Args {
			as = append(as, SpecString(a))
		}
		return x.Fn + "(" + strings.Join(as, ", ") + ")"
	case SIndex:
		return SpecString(x.X) + "[" + SpecString(x.I) + "]"
	case SSliceE:
		lo, hi := "", ""
		if x.Lo != nil {
			lo = SpecString(x.Lo)
		}
		if x.Hi != nil {
			hi = SpecString(x.Hi)
		}
		return SpecString(x.X) + "[" + lo + ":" + hi + "]"
	case SField:
		return SpecString(x.X) + "." + x.F
	case SQuant:
		q := "exists"
		if x.Forall {
			q = "forall"
		}
		var vs []string
		for _, v := range x.Vars {
			vs = append(vs, v.Name)
		}
		return "(" + q + " " + strings.Join(vs, ",") + " :: " + SpecString(x.Body) + ")"
	}
	return "?"
}
