// Package fovc is a small deductive verifier for the two Go subsets used by
// karino2/folang (see /verif/DESIGN.md §2).  Terms are SMT-LIB 2 text with an
// engine-level sort attached.
package fovc

import (
	"fmt"
	"strings"
)

type SortKind int

const (
	KInt SortKind = iota
	KBool
	KString // SMT String (one char == one byte, see DESIGN §2.3)
	KBStr   // byte string as (arr: Array Int Int, len)  -- "bytes" string mode
	KSlice  // heap-mode slice header (arr, off, len, cap); Elem = element sort
	KSeq    // value-mode slice: uninterpreted Seq_<E> with len/at
	KArray  // SMT array Key -> Elem (ghost maps, heaps)
	KData   // SMT datatype generated from a Go struct / union interface
	KUnint  // uninterpreted sort (type parameters, any, opaque references)
	KMap    // Go map reference (Int) ; Key/Elem
	KFunc   // function value (never printed as a first-class SMT value)
	KTuple  // multiple results (engine internal)
	KBuf    // *bytes.Buffer / bytes.Buffer reference (engine internal, content tracked in state)
)

type Sort struct {
	Kind SortKind
	Name string // for KData, KUnint, KSeq
	Key  *Sort
	Elem *Sort
	Sub  []*Sort // KTuple, KFunc params
}

var (
	SInt    = &Sort{Kind: KInt}
	SBool   = &Sort{Kind: KBool}
	SString = &Sort{Kind: KString}
	SBStr   = &Sort{Kind: KBStr}
	SBuf    = &Sort{Kind: KBuf}
)

func SliceOf(e *Sort) *Sort     { return &Sort{Kind: KSlice, Elem: e} }
func SeqOf(e *Sort) *Sort       { return &Sort{Kind: KSeq, Elem: e, Name: "Seq_" + mangle(e.SMT())} }
func ArrayOf(k, e *Sort) *Sort  { return &Sort{Kind: KArray, Key: k, Elem: e} }
func MapOf(k, e *Sort) *Sort    { return &Sort{Kind: KMap, Key: k, Elem: e} }
func Unint(name string) *Sort   { return &Sort{Kind: KUnint, Name: name} }
func DataSort(n string) *Sort   { return &Sort{Kind: KData, Name: n} }
func TupleSort(s []*Sort) *Sort { return &Sort{Kind: KTuple, Sub: s} }

func mangle(s string) string {
	r := strings.NewReplacer("(", "", ")", "", " ", "_", "[", "_", "]", "_", ",", "_", ".", "_", "*", "P", "/", "_", "-", "_", "{", "_", "}", "_", ";", "_", "|", "_", "!", "_")
	return r.Replace(s)
}

func (s *Sort) SMT() string {
	switch s.Kind {
	case KInt:
		return "Int"
	case KBool:
		return "Bool"
	case KString:
		return "String"
	case KBStr:
		return "BStr"
	case KSlice:
		return "Slice"
	case KSeq:
		return s.Name
	case KArray:
		return "(Array " + s.Key.SMT() + " " + s.Elem.SMT() + ")"
	case KData, KUnint:
		return s.Name
	case KMap:
		return "Int"
	case KBuf:
		return "Int"
	case KFunc:
		return "Int"
	}
	return "?" + fmt.Sprint(s.Kind)
}

func (s *Sort) String() string {
	switch s.Kind {
	case KSlice:
		return "[]" + s.Elem.String()
	case KMap:
		return "map[" + s.Key.String() + "]" + s.Elem.String()
	}
	return s.SMT()
}

func (s *Sort) Equal(o *Sort) bool {
	if s == nil || o == nil {
		return s == o
	}
	if s.Kind != o.Kind {
		return false
	}
	switch s.Kind {
	case KSlice, KSeq:
		return s.Elem.Equal(o.Elem)
	case KArray, KMap:
		return s.Key.Equal(o.Key) && s.Elem.Equal(o.Elem)
	case KData, KUnint:
		return s.Name == o.Name
	}
	return true
}

// Term is SMT text plus its engine sort.
type Term struct {
	S    string
	Sort *Sort
	// Fn is set when the term denotes a function value (closure / callback / named function).
	Fn *FuncVal
}

func T(s string, so *Sort) Term { return Term{S: s, Sort: so} }

func App(so *Sort, f string, args ...Term) Term {
	if len(args) == 0 {
		return Term{S: f, Sort: so}
	}
	var b strings.Builder
	b.WriteString("(")
	b.WriteString(f)
	for _, a := range args {
		b.WriteString(" ")
		b.WriteString(a.S)
	}
	b.WriteString(")")
	return Term{S: b.String(), Sort: so}
}

func IntLit(n int64) Term {
	if n < 0 {
		return T(fmt.Sprintf("(- %d)", -n), SInt)
	}
	return T(fmt.Sprintf("%d", n), SInt)
}
func IntLitS(s string) Term { return T(s, SInt) }

var True = T("true", SBool)
var False = T("false", SBool)

func BoolLit(b bool) Term {
	if b {
		return True
	}
	return False
}

func And(ts ...Term) Term {
	var xs []Term
	for _, t := range ts {
		if t.S == "true" {
			continue
		}
		if t.S == "false" {
			return False
		}
		xs = append(xs, t)
	}
	if len(xs) == 0 {
		return True
	}
	if len(xs) == 1 {
		return xs[0]
	}
	return App(SBool, "and", xs...)
}

func Or(ts ...Term) Term {
	var xs []Term
	for _, t := range ts {
		if t.S == "false" {
			continue
		}
		if t.S == "true" {
			return True
		}
		xs = append(xs, t)
	}
	if len(xs) == 0 {
		return False
	}
	if len(xs) == 1 {
		return xs[0]
	}
	return App(SBool, "or", xs...)
}

func Not(t Term) Term {
	if t.S == "true" {
		return False
	}
	if t.S == "false" {
		return True
	}
	if strings.HasPrefix(t.S, "(not ") {
		return T(t.S[5:len(t.S)-1], SBool)
	}
	return App(SBool, "not", t)
}
func Implies(a, b Term) Term {
	if a.S == "true" {
		return b
	}
	if b.S == "true" {
		return True
	}
	return App(SBool, "=>", a, b)
}
func Eq(a, b Term) Term  { return App(SBool, "=", a, b) }
func Lt(a, b Term) Term  { return App(SBool, "<", a, b) }
func Le(a, b Term) Term  { return App(SBool, "<=", a, b) }
func Add(a, b Term) Term { return App(SInt, "+", a, b) }
func Sub(a, b Term) Term { return App(SInt, "-", a, b) }
func Ite(c, a, b Term) Term {
	return Term{S: "(ite " + c.S + " " + a.S + " " + b.S + ")", Sort: a.Sort, Fn: a.Fn}
}
func Select(a, i Term) Term   { return App(a.Sort.Elem, "select", a, i) }
func Store(a, i, v Term) Term { return App(a.Sort, "store", a, i, v) }

// SMT string literal (bytes > 127 or control chars as \u{..}).
func StrLit(s string) Term {
	var b strings.Builder
	b.WriteString("\"")
	for i := 0; i < len(s); i++ {
		c := s[i]
		switch {
		case c == '"':
			b.WriteString("\"\"")
		case c == '\\':
			b.WriteString("\\u{5c}")
		case c >= 32 && c < 127:
			b.WriteByte(c)
		default:
			fmt.Fprintf(&b, "\\u{%x}", c)
		}
	}
	b.WriteString("\"")
	return T(b.String(), SString)
}

// slice header accessors (heap mode)
func SlArr(s Term) Term { return App(SInt, "s_arr", s) }
func SlOff(s Term) Term { return App(SInt, "s_off", s) }
func SlLen(s Term) Term { return App(SInt, "s_len", s) }
func SlCap(s Term) Term { return App(SInt, "s_cap", s) }
func MkSlice(so *Sort, arr, off, ln, cp Term) Term {
	return App(so, "mk_slice", arr, off, ln, cp)
}

// byte-string accessors (bytes mode)
func BsArr(s Term) Term { return App(ArrayOf(SInt, SInt), "b_arr", s) }
func BsLen(s Term) Term { return App(SInt, "b_len", s) }
func MkBStr(arr, ln Term) Term {
	return App(SBStr, "mk_bstr", arr, ln)
}
