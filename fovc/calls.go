package fovc

import (
	"fmt"
	"go/ast"
	"go/types"
	"strings"
)

func (fc *FuncCtx) evalCall(call *ast.CallExpr, st *St) []Term {
	fc.runGhostAts(call, true, st, nil)
	res := fc.evalCallInner(call, st)
	fc.runGhostAts(call, false, st, res)
	return res
}

func (fc *FuncCtx) evalCallInner(call *ast.CallExpr, st *St) []Term {
	info := fc.info()
	// conversion?
	if tv, ok := info.Types[call.Fun]; ok && tv.IsType() {
		return []Term{fc.evalConversion(call, tv.Type, st)}
	}
	fun := ast.Unparen(call.Fun)
	// builtin?
	if id, ok := fun.(*ast.Ident); ok {
		if b, ok := info.ObjectOf(id).(*types.Builtin); ok {
			return fc.evalBuiltin(b.Name(), call, st)
		}
	}
	// method call on bytes.Buffer and friends / declared function
	if fn := fc.calleeFunc(call); fn != nil && fn.Pkg() == nil {
		// a method of a universe type (error.Error): an uninterpreted function of the receiver
		if sel, ok := fun.(*ast.SelectorExpr); ok {
			recv := fc.eval(sel.X, st)
			rs := fc.sortOf(fc.typeOf(call))
			name := "universe_" + fn.Name() + "_" + mangle(recv.Sort.SMT())
			fc.declareFun(name, []*Sort{recv.Sort}, rs)
			return []Term{App(rs, name, recv)}
		}
	}
	if fn := fc.calleeFunc(call); fn != nil && fn.Pkg() != nil {
		key := funcKey(fn)
		inRepo := fn.Pkg() != nil && fc.E.Pkgs[fn.Pkg().Path()] != nil
		var recv *Term
		var recvExpr ast.Expr
		if sel, ok := fun.(*ast.SelectorExpr); ok {
			if s, ok := info.Selections[sel]; ok && s.Kind() == types.MethodVal {
				recvExpr = sel.X
			}
		}
		if !inRepo {
			key = "ext:" + fn.Pkg().Path() + "." + strings.TrimPrefix(key, fn.Pkg().Name()+".")
			if res, ok := fc.evalIntrinsic(key, call, recvExpr, st); ok {
				return res
			}
		}
		if key == "frt.SInterP" {
			if res, ok := fc.sinterpConst(call, st); ok {
				return res
			}
		}
		if recvExpr != nil {
			r := fc.eval(recvExpr, st)
			recv = &r
		}
		var args []Term
		for _, a := range call.Args {
			vs := fc.evalMulti(a, st)
			args = append(args, vs...)
			if st.dead {
				return fc.deadResults(call)
			}
		}
		if call.Ellipsis.IsValid() {
			// f(xs...) passes the slice itself
		} else if sig, ok := fn.Type().(*types.Signature); ok && sig.Variadic() && inRepo {
			// pack variadic arguments into a slice
			np := sig.Params().Len()
			fixed := args
			var rest []Term
			if len(args) >= np-1 {
				fixed = args[:np-1]
				rest = args[np-1:]
			}
			vt := sig.Params().At(np - 1).Type().(*types.Slice)
			var packed Term
			if fc.SliceMode == "heap" {
				packed = fc.allocSlice(st, fc.sortOf(vt.Elem()), rest)
			} else {
				so := fc.sortOf(vt)
				packed = fc.fresh("va", so)
				st.assume(Eq(seqLen(packed), IntLit(int64(len(rest)))))
				for i, el := range rest {
					st.assume(Eq(seqAt(packed, IntLit(int64(i))), fc.coerceSort(el, so.Elem)))
				}
			}
			args = append(append([]Term(nil), fixed...), packed)
		}
		if sig, ok := fn.Type().(*types.Signature); ok && inRepo {
			for i := range args {
				if i < sig.Params().Len() {
					args[i] = fc.coerce(args[i], sig.Params().At(i).Type())
				}
			}
		}
		if recv != nil {
			args = append([]Term{*recv}, args...)
		}
		return fc.callNamed(key, fn, args, call, st)
	}
	// call of a function value (callback parameter, local closure, immediately invoked literal)
	fv := fc.eval(fun, st)
	if fv.Fn == nil {
		return fc.callUnknownFuncVal(call, st)
	}
	var args []Term
	for _, a := range call.Args {
		args = append(args, fc.evalMulti(a, st)...)
	}
	return fc.callFuncVal(fv.Fn, args, call, st)
}

// callUnknownFuncVal models the call of a function value about which nothing is known (a value read from a
// data structure): it may panic, may change every heap, map, buffer and declared global, and returns
// arbitrary values of its result types.  Only a caller whose contract says `panics may` (and has no
// onpanic clauses) can absorb that; otherwise the construct stays unsupported (fail closed).
func (fc *FuncCtx) callUnknownFuncVal(call *ast.CallExpr, st *St) []Term {
	if fc.Con.Panics != "may" || len(fc.Con.OnPanic) > 0 {
		fc.unsupported(st, "call of an unknown function value", fc.pos(call))
		return fc.deadResults(call)
	}
	for _, a := range call.Args {
		fc.evalMulti(a, st)
	}
	if st.dead {
		return fc.deadResults(call)
	}
	nn := fc.fresh("next", SInt)
	st.assume(Le(st.next, nn))
	st.next = nn
	if fc.SliceMode == "heap" {
		for _, es := range fc.heapElems {
			fc.heapOf(st, es)
			st.heaps[es.SMT()] = fc.fresh("heap", heapSort(es))
		}
		st.mine = fc.fresh("mine", st.mine.Sort)
	}
	fc.materialiseStores(st, true, true)
	for k := range st.mdom {
		st.mdom[k] = fc.fresh("mdom", st.mdom[k].Sort)
	}
	for k := range st.mval {
		st.mval[k] = fc.fresh("mval", st.mval[k].Sort)
	}
	st.bufh = fc.fresh("bufh", st.bufh.Sort)
	fc.materialiseGlobals(st)
	for g := range st.glob {
		if fc.E.CS.GhostGlobals[g] {
			continue
		}
		st.glob[g] = fc.fresh("glob_"+g, st.glob[g].Sort)
	}
	fc.unknownCalls++
	fc.Assumed["a function value read from a data structure (called at "+fc.pos(call)+") returns or panics (termination of the stored function is not covered); inside the calling function its result and its effects on maps, buffers and abstract globals are arbitrary, but the modifies clause the calling function declares to its own callers is not checked against this call (assumed: stored variable / type factories and type-variable generators touch nothing beyond it)"] = true
	t := fc.typeOf(call)
	if tup, ok := t.(*types.Tuple); ok {
		var r []Term
		for i := 0; i < tup.Len(); i++ {
			r = append(r, fc.fresh("unk", fc.sortOf(tup.At(i).Type())))
		}
		return r
	}
	return []Term{fc.fresh("unk", fc.sortOf(t))}
}

func (fc *FuncCtx) deadResults(call *ast.CallExpr) []Term {
	t := fc.typeOf(call)
	if tup, ok := t.(*types.Tuple); ok {
		var r []Term
		for i := 0; i < tup.Len(); i++ {
			r = append(r, T("0", fc.sortOf(tup.At(i).Type())))
		}
		return r
	}
	return []Term{T("0", fc.sortOf(t))}
}

func (fc *FuncCtx) evalConversion(call *ast.CallExpr, to types.Type, st *St) Term {
	v := fc.eval(call.Args[0], st)
	from := fc.typeOf(call.Args[0])
	tos := fc.sortOf(to)
	switch {
	case tos.Kind == KString || tos.Kind == KBStr:
		if v.Sort.Kind == KString || v.Sort.Kind == KBStr {
			return v
		}
		if v.Sort.Kind == KInt {
			if isUint8(from) || true {
				// string(byte): one-byte string (for byte values; code points >= 128 are outside the byte model)
				if tos.Kind == KString {
					return App(SString, "str.from_code", v)
				}
				r := fc.fresh("s1", SBStr)
				st.assume(Eq(BsLen(r), IntLit(1)))
				st.assume(Eq(Select(BsArr(r), IntLit(0)), v))
				return r
			}
		}
		if v.Sort.Kind == KSlice || v.Sort.Kind == KSeq {
			// string([]byte): uninterpreted bytes->string
			fc.declareFun("bytes_to_string_"+mangle(v.Sort.SMT()), []*Sort{v.Sort}, tos)
			return App(tos, "bytes_to_string_"+mangle(v.Sort.SMT()), v)
		}
	case tos.Kind == KInt:
		if v.Sort.Kind == KInt {
			if isUint8(to) && !isUint8(from) {
				return App(SInt, "mod", v, IntLit(256))
			}
			return v
		}
	case tos.Kind == KSlice || tos.Kind == KSeq:
		if v.Sort.Kind == KString || v.Sort.Kind == KBStr {
			// []byte(s): opaque, with string([]byte(s)) == s
			if !fc.declSet["string_to_bytes"] {
				fc.declareFun("string_to_bytes", []*Sort{v.Sort}, tos)
				b2s := "bytes_to_string_" + mangle(tos.SMT())
				fc.declareFun(b2s, []*Sort{tos}, v.Sort)
				fc.addAxiom(fmt.Sprintf("(forall ((s %s)) (! (= (%s (string_to_bytes s)) s) :pattern ((string_to_bytes s))))", v.Sort.SMT(), b2s))
			}
			return App(tos, "string_to_bytes", v)
		}
		if v.Sort.Equal(tos) {
			return v
		}
	default:
		if v.Sort.Equal(tos) {
			return v
		}
		if tos.Kind == KUnint && tos.Name == "Any" {
			return fc.boxAny(v)
		}
		// T(x) between two named struct types with identical underlying types (Go's conversion rule): the
		// result has field by field the fields of x
		if v.Sort.Kind == KData && tos.Kind == KData {
			fd, fcn := fc.ctorFor(from)
			td, tcn := fc.ctorFor(to)
			if fd != nil && td != nil && !fd.IsUnion && !td.IsUnion && len(fcn.Fields) == len(tcn.Fields) {
				ok := true
				var args []Term
				for i := range fcn.Fields {
					if !fcn.Fields[i].Sort.Equal(tcn.Fields[i].Sort) {
						ok = false
						break
					}
					args = append(args, App(fcn.Fields[i].Sort, fcn.Fields[i].Name, v))
				}
				if ok {
					return App(tos, tcn.Name, args...)
				}
			}
		}
	}
	fc.unsupported(st, "conversion to "+to.String(), fc.pos(call))
	return T("0", tos)
}

// boxAny injects a value into the uninterpreted sort Any.
func (fc *FuncCtx) boxAny(v Term) Term {
	if v.Sort.Kind == KUnint && v.Sort.Name == "Any" {
		return v
	}
	anyS := fc.Sorts.declUnint("Any")
	fn := "box_" + mangle(v.Sort.SMT())
	if !fc.declSet[fn] {
		fc.declareFun(fn, []*Sort{v.Sort}, anyS)
		// structural equality on a slice-free sort is plain equality (the only values struct_eq identifies
		// beyond identity are nil and empty slices)
		if sf := fc.E.CS.SpecFuns["struct_eq"]; sf != nil && fc.sliceFree(v.Sort, map[string]bool{}) {
			fc.declareSpecFun(sf, nil)
			fc.addAxiom(fmt.Sprintf("(forall ((a %s) (b %s)) (! (= (struct_eq (%s a) (%s b)) (= a b)) :pattern ((struct_eq (%s a) (%s b)))))", v.Sort.SMT(), v.Sort.SMT(), fn, fn, fn, fn))
			fc.Assumed["struct_eq on values without slices is plain equality (definition of the specification function)"] = true
		} else if sf != nil && v.Sort.Kind == KData {
			// comparison with a constructor that has no fields: plain equality as well
			if d := fc.Sorts.dts[v.Sort.Name]; d != nil {
				fc.declareSpecFun(sf, nil)
				for _, ct := range d.Ctors {
					if len(ct.Fields) == 0 {
						fc.addAxiom(fmt.Sprintf("(forall ((a %s)) (! (and (= (struct_eq (%s a) (%s %s)) (= a %s)) (= (struct_eq (%s %s) (%s a)) (= a %s))) :pattern ((%s a))))", v.Sort.SMT(), fn, fn, ct.Name, ct.Name, fn, ct.Name, fn, ct.Name, fn))
					}
				}
				fc.Assumed["struct_eq against a constructor without fields is plain equality (definition of the specification function)"] = true
			}
		}
	}
	return App(anyS, fn, v)
}

// sliceFree: values of this sort contain no slices, maps, function values or interface values outside the
// union encoding.
func (fc *FuncCtx) sliceFree(s *Sort, seen map[string]bool) bool {
	switch s.Kind {
	case KInt, KBool, KString:
		return true
	case KData:
		if seen[s.Name] {
			return true
		}
		seen[s.Name] = true
		d := fc.Sorts.dts[s.Name]
		if d == nil {
			return false
		}
		for _, ct := range d.Ctors {
			for _, f := range ct.Fields {
				if !fc.sliceFree(f.Sort, seen) {
					return false
				}
			}
		}
		return true
	}
	return false
}

func (fc *FuncCtx) evalBuiltin(name string, call *ast.CallExpr, st *St) []Term {
	switch name {
	case "len", "cap":
		v := fc.eval(call.Args[0], st)
		switch v.Sort.Kind {
		case KSlice:
			if name == "len" {
				return []Term{SlLen(v)}
			}
			return []Term{SlCap(v)}
		case KSeq:
			if name == "len" {
				return []Term{seqLen(v)}
			}
		case KString:
			return []Term{App(SInt, "str.len", v)}
		case KBStr:
			return []Term{BsLen(v)}
		}
		fc.unsupported(st, name+" of "+v.Sort.String(), fc.pos(call))
		return []Term{T("0", SInt)}
	case "panic":
		what := "panic"
		if len(call.Args) > 0 {
			if tv, ok := fc.info().Types[call.Args[0]]; ok && tv.Value != nil {
				what = "panic(" + tv.Value.String() + ")"
			}
		}
		fc.panicAt(st, fc.pos(call), what)
		return nil
	case "make":
		t := fc.typeOf(call)
		so := fc.sortOf(t)
		switch so.Kind {
		case KMap:
			r := fc.fresh("mref", so)
			st.assume(Eq(r, st.next))
			st.next = Add(r, IntLit(1))
			dom := fc.mapDom(st, so.Key, so.Elem)
			key := mkey(so.Key, so.Elem)
			st.mdom[key] = Store(dom, r, T("((as const "+ArrayOf(so.Key, SBool).SMT()+") false)", ArrayOf(so.Key, SBool)))
			return []Term{r}
		}
		fc.unsupported(st, "make of "+t.String(), fc.pos(call))
		return []Term{T("0", so)}
	case "append":
		return []Term{fc.evalAppend(call, st)}
	case "recover":
		// recover() returns the value of the panic in flight (nil when there is none): the abstract global panicval
		if ty, ok := fc.E.CS.Globals["panicval"]; ok {
			return []Term{fc.globOf(st, "panicval", fc.sortOfSType(ty, nil))}
		}
		fc.unsupported(st, "recover() without a declared panicval global", fc.pos(call))
		return fc.deadResults(call)
	}
	fc.unsupported(st, "builtin "+name, fc.pos(call))
	return fc.deadResults(call)
}

// evalAppend models Go's append exactly on (arr, off, len, cap) headers; the growth policy is left
// open (any new capacity >= the new length).
func (fc *FuncCtx) evalAppend(call *ast.CallExpr, st *St) Term {
	s := fc.eval(call.Args[0], st)
	if s.Sort.Kind != KSlice {
		if s.Sort.Kind == KSeq {
			return fc.evalAppendSeq(call, s, st)
		}
		fc.unsupported(st, "append on "+s.Sort.String(), fc.pos(call))
		return s
	}
	es := s.Sort.Elem
	if call.Ellipsis.IsValid() {
		t := fc.eval(call.Args[1], st)
		if t.Sort.Kind == KString || t.Sort.Kind == KBStr {
			fc.unsupported(st, "append(bytes, string...)", fc.pos(call))
			return s
		}
		h := fc.heapOf(st, es)
		n := SlLen(t)
		newLen := Add(SlLen(s), n)
		inplace := Le(newLen, SlCap(s))
		// write obligation only when something is written in place
		fc.nwrite++
		fc.oblig(st, fmt.Sprintf("write#%d.owned", fc.nwrite), Implies(And(inplace, Lt(IntLit(0), n)), Select(st.mine, SlArr(s))), "append writes in place only into an array allocated by this call", fc.pos(call), []string{"C12"})
		na := fc.fresh("na", ArrayOf(SInt, es))
		r := fc.fresh("arr", SInt)
		ncap := fc.fresh("ncap", SInt)
		src := Select(h, SlArr(t))
		dst := Select(h, SlArr(s))
		base := Add(SlOff(s), SlLen(s))
		// in place: cells [off+len, off+len+n) get t's elements, the rest of the array is unchanged
		q1 := fmt.Sprintf("(forall ((k Int)) (! (= (select %s k) (ite (and (<= %s k) (< k (+ %s %s))) (select %s (+ %s (- k %s))) (select %s k))) :pattern ((select %s k))))",
			na.S, base.S, base.S, n.S, src.S, SlOff(t).S, base.S, dst.S, na.S)
		// fresh: cells [0,len) copy s, [len, len+n) copy t
		q2 := fmt.Sprintf("(forall ((k Int)) (! (and (=> (and (<= 0 k) (< k %s)) (= (select %s k) (select %s (+ %s k)))) (=> (and (<= %s k) (< k %s)) (= (select %s k) (select %s (+ %s (- k %s)))))) :pattern ((select %s k))))",
			SlLen(s).S, na.S, dst.S, SlOff(s).S, SlLen(s).S, newLen.S, na.S, src.S, SlOff(t).S, SlLen(s).S, na.S)
		st.assume(Implies(inplace, T(q1, SBool)))
		st.assume(Implies(Not(inplace), And(T(q2, SBool), Eq(r, st.next), Le(newLen, ncap))))
		res := fc.fresh("app", s.Sort)
		st.assume(Eq(res, Ite(inplace, MkSlice(s.Sort, SlArr(s), SlOff(s), newLen, SlCap(s)), MkSlice(s.Sort, r, IntLit(0), newLen, ncap))))
		st.heaps[es.SMT()] = Ite(inplace, Store(h, SlArr(s), na), Store(h, r, na))
		st.mine = Ite(inplace, st.mine, Store(st.mine, r, True))
		st.next = Ite(inplace, st.next, Add(st.next, IntLit(1)))
		st.next = fc.nameIt(st, "next", st.next)
		st.mine = fc.nameIt(st, "mine", st.mine)
		st.heaps[es.SMT()] = fc.nameIt(st, "heap", st.heaps[es.SMT()])
		return res
	}
	var elems []Term
	for _, a := range call.Args[1:] {
		elems = append(elems, fc.coerceSort(fc.eval(a, st), es))
	}
	cur := s
	for _, e := range elems {
		h := fc.heapOf(st, es)
		inplace := Lt(SlLen(cur), SlCap(cur))
		fc.nwrite++
		fc.oblig(st, fmt.Sprintf("write#%d.owned", fc.nwrite), Implies(inplace, Select(st.mine, SlArr(cur))), "append writes in place only into an array allocated by this call", fc.pos(call), []string{"C12"})
		na := fc.fresh("na", ArrayOf(SInt, es))
		r := fc.fresh("arr", SInt)
		ncap := fc.fresh("ncap", SInt)
		dst := Select(h, SlArr(cur))
		newLen := Add(SlLen(cur), IntLit(1))
		q2 := fmt.Sprintf("(forall ((k Int)) (! (=> (and (<= 0 k) (< k %s)) (= (select %s k) (select %s (+ %s k)))) :pattern ((select %s k))))",
			SlLen(cur).S, na.S, dst.S, SlOff(cur).S, na.S)
		st.assume(Implies(Not(inplace), And(T(q2, SBool), Eq(Select(na, SlLen(cur)), e), Eq(r, st.next), Le(newLen, ncap))))
		res := fc.fresh("app", s.Sort)
		st.assume(Eq(res, Ite(inplace, MkSlice(s.Sort, SlArr(cur), SlOff(cur), newLen, SlCap(cur)), MkSlice(s.Sort, r, IntLit(0), newLen, ncap))))
		st.heaps[es.SMT()] = fc.nameIt(st, "heap", Ite(inplace, Store(h, SlArr(cur), Store(dst, Add(SlOff(cur), SlLen(cur)), e)), Store(h, r, na)))
		st.mine = fc.nameIt(st, "mine", Ite(inplace, st.mine, Store(st.mine, r, True)))
		st.next = fc.nameIt(st, "next", Ite(inplace, st.next, Add(st.next, IntLit(1))))
		cur = res
	}
	return cur
}

func (fc *FuncCtx) evalAppendSeq(call *ast.CallExpr, s Term, st *St) Term {
	// value mode: append yields a new sequence
	res := fc.fresh("app", s.Sort)
	if call.Ellipsis.IsValid() {
		t := fc.eval(call.Args[1], st)
		st.assume(Eq(seqLen(res), Add(seqLen(s), seqLen(t))))
		st.assume(T(fmt.Sprintf("(forall ((k Int)) (! (and (=> (and (<= 0 k) (< k %s)) (= %s %s)) (=> (and (<= %s k) (< k %s)) (= %s %s))) :pattern (%s)))",
			seqLen(s).S, seqAt(res, T("k", SInt)).S, seqAt(s, T("k", SInt)).S, seqLen(s).S, seqLen(res).S, seqAt(res, T("k", SInt)).S, seqAt(t, Sub(T("k", SInt), seqLen(s))).S, seqAt(res, T("k", SInt)).S), SBool))
		return res
	}
	n := int64(len(call.Args) - 1)
	st.assume(Eq(seqLen(res), Add(seqLen(s), IntLit(n))))
	st.assume(T(fmt.Sprintf("(forall ((k Int)) (! (=> (and (<= 0 k) (< k %s)) (= %s %s)) :pattern (%s)))",
		seqLen(s).S, seqAt(res, T("k", SInt)).S, seqAt(s, T("k", SInt)).S, seqAt(res, T("k", SInt)).S), SBool))
	for i, a := range call.Args[1:] {
		st.assume(Eq(seqAt(res, Add(seqLen(s), IntLit(int64(i)))), fc.coerceSort(fc.eval(a, st), s.Sort.Elem)))
	}
	return res
}

// runGhostAts executes ghost statements anchored at the k-th syntactic call of a callee.
func (fc *FuncCtx) runGhostAts(call *ast.CallExpr, before bool, st *St, results []Term) {
	if st.dead {
		return
	}
	name, ok := fc.callName[call]
	if !ok {
		return
	}
	ord := fc.callOrd[call]
	for _, ga := range fc.Con.GhostAts {
		if ga.Kind != "call" || ga.Callee != name || ga.Ord != ord || ga.Before != before {
			continue
		}
		if ga.Pass {
			if id, ok := ga.LHS.(SIdent); ok {
				if fc.pendingPass == nil {
					fc.pendingPass = map[string]Term{}
				}
				fc.pendingPass[id.Name] = fc.spec(ga.RHS, fc.newEnv(st))
			}
			continue
		}
		extra := map[string]Term{}
		// $k: the k-th argument of the anchored call (evaluated without side conditions, in the state at the anchor),
		// so that an anchor need not name a local variable or a compiler temporary of the code
		if strings.Contains(ga.Src, "$") {
			nobl := len(fc.Obls)
			for k, a := range call.Args {
				if strings.Contains(ga.Src, fmt.Sprintf("$%d", k)) {
					func() {
						defer func() { recover() }()
						extra[fmt.Sprintf("$%d", k)] = fc.evalPure(a, st)
					}()
				}
			}
			fc.Obls = fc.Obls[:nobl]
		}
		if !before {
			if len(results) > 0 {
				extra["ret"] = results[0]
			}
			for k, r := range results {
				extra[fmt.Sprintf("ret%d", k)] = r
			}
			for k, v := range fc.lastCalleeGhosts {
				extra["c_"+k] = v
			}
		}
		fc.execGhost(ga.LHS, ga.RHS, st, extra)
	}
}

func (fc *FuncCtx) execGhost(lhs, rhs SExpr, st *St, extra map[string]Term) {
	env := fc.newEnv(st)
	for k, v := range extra {
		env.bound[k] = v
	}
	v := fc.spec(rhs, env)
	switch l := lhs.(type) {
	case SCall:
		// glob(name) = e : assignment to an abstract global (ghost) state component
		if l.Fn == "glob" && len(l.Args) == 1 {
			if id, ok := l.Args[0].(SIdent); ok {
				if ty, ok := fc.E.CS.Globals[id.Name]; ok {
					fc.globOf(st, id.Name, fc.sortOfSType(ty, nil))
					st.glob[id.Name] = fc.nameIt(st, "glob_"+id.Name, v)
					return
				}
			}
		}
		fc.unsupported(st, "ghost assignment target", "")
	case SIdent:
		if _, ok := st.ghost[l.Name]; !ok {
			fc.unsupported(st, "assignment to undeclared ghost "+l.Name, "")
			return
		}
		st.ghost[l.Name] = fc.nameIt(st, l.Name, v)
	case SIndex:
		id, ok := l.X.(SIdent)
		if !ok {
			fc.unsupported(st, "ghost assignment target", "")
			return
		}
		g, ok := st.ghost[id.Name]
		if !ok {
			fc.unsupported(st, "assignment to undeclared ghost "+id.Name, "")
			return
		}
		i := fc.spec(l.I, env)
		st.ghost[id.Name] = fc.nameIt(st, id.Name, Store(g, i, v))
	default:
		fc.unsupported(st, "ghost assignment target", "")
	}
}

// callNamed: call of a declared function (in /repo or external), by contract / inline / intrinsic.
func (fc *FuncCtx) callNamed(key string, fn *types.Func, args []Term, call *ast.CallExpr, st *St) []Term {
	con := fc.E.CS.Funcs[key]
	ref := fc.E.FuncDecl[key]
	if strings.HasPrefix(key, "ext:") {
		ref = nil
	}
	if key == "frt.SInterP" && call != nil {
		if res, ok := fc.sinterpConst(call, st); ok {
			return res
		}
	}
	// a call site the caller's contract asks to inline (the callee's loops get call-site invariants)
	if ref != nil && ref.Decl.Body != nil {
		site := ""
		named := false
		if call != nil && fc.inlineSite == "" {
			site = fmt.Sprintf("%s#%d", fc.callName[call], fc.callOrd[call])
			_, named = fc.callName[call]
		}
		if !(named && fc.Con.InlineAt[site]) {
			named = false
			// `inline-call F` (no ordinal): every call of F reached while executing this function, also through
			// inlined helpers, is inlined with the loop invariants `loop F/n`
			short := key
			if i := strings.LastIndex(short, "."); i >= 0 {
				short = short[i+1:]
			}
			if fc.Con.InlineAt[short] && !fc.callFreeLiteralsOnly(args) {
				// (a call whose function arguments are all call-free literals, e.g. a field projection, stays a
				// contract call: nothing in it needs call-site invariants, and the callee's postcondition is more precise)
				site = short
				named = true
			}
		}
		if named && fc.Con.InlineAt[site] {
			fc.Deps[key+" (body inlined at call site "+site+" with call-site loop invariants)"] = true
			save, saveRef := fc.inlineSite, fc.inlineRef
			fc.inlineSite = site
			fc.inlineRef = ref
			res := fc.inlineCall(ref, fn, args, call, st)
			fc.inlineSite, fc.inlineRef = save, saveRef
			return res
		}
	}
	// recursion / self call must go through the contract
	if con != nil && !con.Inline && !(con.InlineCalls && key != fc.Ref.Key && ref != nil) {
		return fc.callByContract(con, ref, fn, args, call, st)
	}
	if con != nil && con.InlineCalls {
		fc.Deps[con.Key+" (β-reduced at the call site; its contract is proved under C14)"] = true
	}
	if ref != nil && ref.Decl.Body != nil {
		if con == nil && hasLoop(ref.Decl.Body) {
			fc.unsupported(st, "call of "+key+" (has loops, needs a contract)", fc.pos(call))
			return fc.deadResults(call)
		}
		if fc.inlineDep > 24 || (fc.inStack(key) && !(con != nil && con.InlineCalls && key != fc.Ref.Key)) {
			fc.unsupported(st, "call of "+key+" (recursive or too deep to inline, needs a contract)", fc.pos(call))
			return fc.deadResults(call)
		}
		if con == nil {
			fc.Assumed["inlined without a contract (body is part of the caller's verified text): "+key] = true
		}
		return fc.inlineCall(ref, fn, args, call, st)
	}
	fc.unsupported(st, "call of "+key+" (no contract)", fc.pos(call))
	return fc.deadResults(call)
}

func hasLoop(b *ast.BlockStmt) bool {
	found := false
	ast.Inspect(b, func(n ast.Node) bool {
		switch n.(type) {
		case *ast.ForStmt, *ast.RangeStmt:
			found = true
		case *ast.FuncLit:
			return true
		}
		return !found
	})
	return found
}

func (fc *FuncCtx) inStack(key string) bool {
	for _, k := range fc.inlStack {
		if k == key {
			return true
		}
	}
	return key == fc.Ref.Key
}

// formalNames of a declared function: receiver first.
func formalObjs(ref *FuncRef) []*ast.Ident {
	var res []*ast.Ident
	if ref.Decl.Recv != nil {
		for _, f := range ref.Decl.Recv.List {
			if len(f.Names) == 0 {
				res = append(res, nil)
			}
			res = append(res, f.Names...)
		}
	}
	for _, f := range ref.Decl.Type.Params.List {
		if len(f.Names) == 0 {
			res = append(res, nil)
		}
		res = append(res, f.Names...)
	}
	return res
}

// tsubstFor computes the type-parameter substitution of a generic call.
func (fc *FuncCtx) tsubstFor(call *ast.CallExpr, fn *types.Func) map[string]*Sort {
	if call == nil {
		return nil
	}
	fun := ast.Unparen(call.Fun)
	switch f := fun.(type) {
	case *ast.IndexExpr:
		fun = f.X
	case *ast.IndexListExpr:
		fun = f.X
	}
	var id *ast.Ident
	switch f := fun.(type) {
	case *ast.Ident:
		id = f
	case *ast.SelectorExpr:
		id = f.Sel
	}
	if id == nil {
		return nil
	}
	inst, ok := fc.info().Instances[id]
	if !ok {
		return nil
	}
	sig, _ := fn.Type().(*types.Signature)
	if sig == nil || sig.TypeParams() == nil {
		return nil
	}
	m := map[string]*Sort{}
	for i := 0; i < sig.TypeParams().Len() && i < inst.TypeArgs.Len(); i++ {
		m[sig.TypeParams().At(i).Obj().Name()] = fc.sortOf(inst.TypeArgs.At(i))
	}
	return m
}

// callFreeLiteralsOnly: there is at least one function-valued argument and every one of them is a literal
// whose body calls nothing but functions under a contract without effects (no modifies clause, panics never).
func (fc *FuncCtx) callFreeLiteralsOnly(args []Term) bool {
	n := 0
	for _, a := range args {
		if a.Fn == nil {
			continue
		}
		n++
		if a.Fn.Kind != "lit" || a.Fn.Lit == nil {
			return false
		}
		effect := false
		fc.infoStack = append(fc.infoStack, a.Fn.Info)
		ast.Inspect(a.Fn.Lit.Body, func(nd ast.Node) bool {
			if c, ok := nd.(*ast.CallExpr); ok {
				pure := false
				if fn := fc.calleeFunc(c); fn != nil {
					if con := fc.E.CS.Funcs[funcKey(fn)]; con != nil && len(con.Modifies) == 0 && con.Panics == "never" && !con.Trusted {
						pure = true
					}
				}
				if !pure {
					effect = true
				}
			}
			return !effect
		})
		fc.infoStack = fc.infoStack[:len(fc.infoStack)-1]
		if effect {
			return false
		}
	}
	return n > 0
}

// tsubstTypesFor: the Go types the type parameters of a generic call are instantiated with.
func (fc *FuncCtx) tsubstTypesFor(call *ast.CallExpr, fn *types.Func) map[string]types.Type {
	if call == nil || fn == nil {
		return nil
	}
	fun := ast.Unparen(call.Fun)
	switch f := fun.(type) {
	case *ast.IndexExpr:
		fun = f.X
	case *ast.IndexListExpr:
		fun = f.X
	}
	var id *ast.Ident
	switch f := fun.(type) {
	case *ast.Ident:
		id = f
	case *ast.SelectorExpr:
		id = f.Sel
	}
	if id == nil {
		return nil
	}
	inst, ok := fc.info().Instances[id]
	if !ok {
		return nil
	}
	sig, _ := fn.Type().(*types.Signature)
	if sig == nil || sig.TypeParams() == nil {
		return nil
	}
	m := map[string]types.Type{}
	for i := 0; i < sig.TypeParams().Len() && i < inst.TypeArgs.Len(); i++ {
		m[sig.TypeParams().At(i).Obj().Name()] = inst.TypeArgs.At(i)
	}
	return m
}

// inlineCall executes the callee body in the caller's state and merges its return paths.
func (fc *FuncCtx) inlineCall(ref *FuncRef, fn *types.Func, args []Term, call *ast.CallExpr, st *St) []Term {
	ts := fc.tsubstFor(call, fn)
	if call == nil && fc.fvTArgs != nil {
		ts = fc.fvTArgs
	}
	saveTs := fc.tsubst
	saveTT := fc.tsubstTypes
	if tt := fc.tsubstTypesFor(call, fn); tt != nil {
		fc.tsubstTypes = tt
	}
	if ts != nil {
		fc.tsubst = ts
	} else if fn != nil {
		if sig, ok := fn.Type().(*types.Signature); ok && sig.TypeParams() == nil {
			fc.tsubst = nil
		}
	}
	fc.infoStack = append(fc.infoStack, ref.Pkg.TypesInfo)
	fc.inlStack = append(fc.inlStack, ref.Key)
	fc.inlineDep++
	defer func() {
		fc.inlineDep--
		fc.inlStack = fc.inlStack[:len(fc.inlStack)-1]
		fc.infoStack = fc.infoStack[:len(fc.infoStack)-1]
		fc.tsubst = saveTs
		fc.tsubstTypes = saveTT
	}()
	work := st.clone()
	formals := formalObjs(ref)
	for i, id := range formals {
		if id == nil || id.Name == "_" || i >= len(args) {
			continue
		}
		if obj := ref.Pkg.TypesInfo.Defs[id]; obj != nil {
			work.vars[obj] = args[i]
		}
	}
	// named results
	if ref.Decl.Type.Results != nil {
		for _, f := range ref.Decl.Type.Results.List {
			for _, nm := range f.Names {
				if obj := ref.Pkg.TypesInfo.Defs[nm]; obj != nil {
					work.vars[obj] = fc.zero(obj.Type(), work)
				}
			}
		}
	}
	var outs []*St
	var rets [][]Term
	c := ctl{
		next: func(s *St) { outs = append(outs, s); rets = append(rets, nil) },
		ret:  func(s *St, vals []Term) { outs = append(outs, s); rets = append(rets, vals) },
	}
	fc.execStmts(ref.Decl.Body.List, 0, work, c)
	// callee locals must not leak: restore caller's variable map after the merge
	callerVars := st.vars
	nres := 0
	if ref.Decl.Type.Results != nil {
		nres = ref.Decl.Type.Results.NumFields()
	}
	for i := range rets {
		if len(rets[i]) != nres {
			// bare return or missing values
			r := make([]Term, nres)
			copy(r, rets[i])
			for j := len(rets[i]); j < nres; j++ {
				r[j] = T("0", SInt)
			}
			rets[i] = r
		}
	}
	merged := fc.mergeStates(st, outs, rets)
	st.vars = callerVars
	if st.dead {
		return fc.deadResults(call)
	}
	return merged
}

// callFuncVal: call of a function value.
func (fc *FuncCtx) callFuncVal(fv *FuncVal, args []Term, call *ast.CallExpr, st *St) []Term {
	switch fv.Kind {
	case "param":
		return fc.callCallback(fv, args, call, st)
	case "named":
		var fn *types.Func
		if fv.Ref != nil {
			fn = fv.Ref.Obj
		}
		save := fc.fvTArgs
		saveSig := fc.fvSig
		fc.fvTArgs = fv.TArgs
		fc.fvSig = fv.Sig
		res := fc.callNamed(fv.Name, fn, args, nil, st)
		fc.fvTArgs = save
		fc.fvSig = saveSig
		return res
	case "lit":
		return fc.inlineLit(fv, args, st)
	}
	fc.unsupported(st, "call of function value kind "+fv.Kind, fc.pos(call))
	return fc.deadResults(call)
}

// inlineLit β-reduces a function literal: its body runs in the current state with the captured
// variables of the defining state visible.
func (fc *FuncCtx) inlineLit(fv *FuncVal, args []Term, st *St) []Term {
	if fc.inlineDep > 40 {
		fc.unsupported(st, "closure nesting too deep", "")
		return []Term{T("0", SInt)}
	}
	fc.infoStack = append(fc.infoStack, fv.Info)
	saveTs := fc.tsubst
	saveTT := fc.tsubstTypes
	fc.tsubst = fv.TArgs
	fc.tsubstTypes = fv.TTypes
	fc.inlineDep++
	defer func() {
		fc.inlineDep--
		fc.infoStack = fc.infoStack[:len(fc.infoStack)-1]
		fc.tsubst = saveTs
		fc.tsubstTypes = saveTT
	}()
	work := st.clone()
	for k, v := range fv.Env.vars {
		if _, ok := work.vars[k]; !ok {
			work.vars[k] = v
		}
	}
	i := 0
	for _, f := range fv.Lit.Type.Params.List {
		for _, nm := range f.Names {
			if obj := fv.Info.Defs[nm]; obj != nil && i < len(args) {
				work.vars[obj] = args[i]
			}
			i++
		}
		if len(f.Names) == 0 {
			i++
		}
	}
	var outs []*St
	var rets [][]Term
	c := ctl{
		next: func(s *St) { outs = append(outs, s); rets = append(rets, nil) },
		ret:  func(s *St, vals []Term) { outs = append(outs, s); rets = append(rets, vals) },
	}
	fc.execStmts(fv.Lit.Body.List, 0, work, c)
	nres := 0
	if fv.Lit.Type.Results != nil {
		nres = fv.Lit.Type.Results.NumFields()
	}
	for i := range rets {
		if len(rets[i]) != nres {
			r := make([]Term, nres)
			copy(r, rets[i])
			for j := len(rets[i]); j < nres; j++ {
				r[j] = T("0", SInt)
			}
			rets[i] = r
		}
	}
	callerVars := st.vars
	merged := fc.mergeStates(st, outs, rets)
	st.vars = callerVars
	if st.dead {
		r := make([]Term, nres)
		for j := range r {
			r[j] = T("0", SInt)
		}
		return r
	}
	return merged
}

func (fc *FuncCtx) appName(fv *FuncVal) string { return "app_" + sanitize(fv.Name) }

// pureApp: the value a callback returns for given arguments (callbacks are total functions, C13).
func (fc *FuncCtx) pureApp(fv *FuncVal, args []Term) Term {
	var as []*Sort
	for _, a := range args {
		as = append(as, a.Sort)
	}
	var rs *Sort = SInt
	if fv.Sig.Results().Len() == 1 {
		rs = fc.sortOf(fv.Sig.Results().At(0).Type())
	} else if fv.Sig.Results().Len() == 0 {
		rs = SBool
	}
	if rs.Kind == KSlice {
		// abstract content functions are used instead (f_len / f_at)
		rs = SInt
	}
	fc.declareFun(fc.appName(fv), as, rs)
	return App(rs, fc.appName(fv), args...)
}

func (fc *FuncCtx) cbLen(fv *FuncVal, args []Term) Term {
	var as []*Sort
	for _, a := range args {
		as = append(as, a.Sort)
	}
	n := "cblen_" + sanitize(fv.Name)
	if !fc.declSet[n] {
		fc.declareFun(n, as, SInt)
	}
	return App(SInt, n, args...)
}

func (fc *FuncCtx) cbAt(fv *FuncVal, args []Term, k Term, elem *Sort) Term {
	var as []*Sort
	for _, a := range args {
		as = append(as, a.Sort)
	}
	as = append(as, SInt)
	n := "cbat_" + sanitize(fv.Name)
	fc.declareFun(n, as, elem)
	return App(elem, n, append(append([]Term(nil), args...), k)...)
}

// recordCallbackTrace appends one call to the ghost trace of a function-typed parameter.
func (fc *FuncCtx) recordCallbackTrace(fv *FuncVal, args []Term, st *St) {
	name := fv.Name
	n, ok := st.trn[name]
	if !ok {
		n = fc.entryTrn(name)
	}
	arrs := st.tra[name]
	if arrs == nil {
		arrs = fc.entryTra(fv)
	}
	na := make([]Term, len(arrs))
	for i := range arrs {
		if i < len(args) {
			na[i] = fc.nameIt(st, "tra", Store(arrs[i], n, args[i]))
		} else {
			na[i] = arrs[i]
		}
	}
	st.tra[name] = na
	st.trn[name] = fc.nameIt(st, "trn", Add(n, IntLit(1)))
}

// callCallback: a call of a function-typed parameter.  Result = pure function of the arguments; the
// call is appended to the parameter's ghost trace; the callback is frame-respecting (may allocate,
// never writes an existing cell).
func (fc *FuncCtx) callCallback(fv *FuncVal, args []Term, call *ast.CallExpr, st *St) []Term {
	if like, ok := fc.Con.ParamSpecs[fv.Name]; ok && strings.HasPrefix(like, "like ") {
		// the parameter behaves like a declared function: its calls go through that function's contract
		target, mapping, err := parseLike(like)
		key := fc.Pkg.Name + "." + target
		con := fc.E.CS.Funcs[key]
		ref := fc.E.FuncDecl[key]
		if err != nil || con == nil || ref == nil {
			fc.unsupported(st, "bad like-contract of parameter "+fv.Name, fc.pos(call))
			return fc.deadResults(call)
		}
		full := make([]Term, len(mapping))
		for i, m := range mapping {
			if m >= 0 && m < len(args) {
				full[i] = args[m]
			} else if m <= -2 {
				full[i] = IntLit(int64(-(m + 2)))
			} else {
				full[i] = Term{S: "0", Sort: &Sort{Kind: KFunc}}
			}
		}
		// the call is also recorded in the parameter's ghost trace (calls(p), arg(p, k) stay usable)
		fc.recordCallbackTrace(fv, args, st)
		return fc.callByContract(con, ref, ref.Obj, full, call, st)
	}
	fc.recordCallbackTrace(fv, args, st)
	fc.Assumed["callbacks are total, side-effect-free on library-visible state, and frame-respecting (they never write a slice cell that existed before they were called)"] = true
	if fc.SliceMode == "heap" {
		// allocation by the callback
		nn := fc.fresh("next", SInt)
		st.assume(Le(st.next, nn))
		for _, es := range fc.heapElems {
			h := fc.heapOf(st, es)
			nh := fc.fresh("heap", heapSort(es))
			st.assume(T(fmt.Sprintf("(forall ((r Int)) (! (=> (< r %s) (= (select %s r) (select %s r))) :pattern ((select %s r))))", st.next.S, nh.S, h.S, nh.S), SBool))
			st.heaps[es.SMT()] = nh
		}
		st.next = nn
	}
	if fv.Sig.Results().Len() == 0 {
		return nil
	}
	if fv.Sig.Results().Len() > 1 {
		fc.unsupported(st, "callback with several results", fc.pos(call))
		return fc.deadResults(call)
	}
	rs := fc.sortOf(fv.Sig.Results().At(0).Type())
	if rs.Kind == KSlice {
		// fresh header per call, content given by the abstract functions cblen / cbat
		r := fc.fresh("cbres", rs)
		fc.assumeValidSlice(st, r)
		st.assume(Not(Select(st.mine, SlArr(r))))
		st.assume(Eq(SlLen(r), fc.cbLen(fv, args)))
		h := fc.heapOf(st, rs.Elem)
		kk := T("k", SInt)
		st.assume(T(fmt.Sprintf("(forall ((k Int)) (! (=> (and (<= 0 k) (< k %s)) (= (select (select %s %s) (+ %s k)) %s)) :pattern ((select (select %s %s) (+ %s k)))))",
			SlLen(r).S, h.S, SlArr(r).S, SlOff(r).S, fc.cbAt(fv, args, kk, rs.Elem).S, h.S, SlArr(r).S, SlOff(r).S), SBool))
		return []Term{r}
	}
	return []Term{fc.pureApp(fv, args)}
}

func (fc *FuncCtx) entryTrn(name string) Term {
	n := "trn0_" + sanitize(name)
	fc.declare(n, SInt)
	return T(n, SInt)
}

func (fc *FuncCtx) entryTra(fv *FuncVal) []Term {
	var res []Term
	for i := 0; i < fv.Sig.Params().Len(); i++ {
		so := ArrayOf(SInt, fc.fieldSort(fv.Sig.Params().At(i).Type()))
		n := fmt.Sprintf("tra0_%s_%d", sanitize(fv.Name), i)
		fc.declare(n, so)
		res = append(res, T(n, so))
	}
	return res
}

// assumeValidSlice: the type invariant of a slice header allocated before "now".
func (fc *FuncCtx) assumeValidSlice(st *St, s Term) {
	z := IntLit(0)
	st.assume(And(Le(z, SlArr(s)), Lt(SlArr(s), st.next), Le(z, SlOff(s)), Le(z, SlLen(s)), Le(SlLen(s), SlCap(s)), Implies(Eq(SlArr(s), z), Eq(SlCap(s), z))))
	if s.Sort.Elem != nil && s.Sort.Elem.Kind == KSlice {
		// headers stored in memory are valid too
		h := fc.heapOf(st, s.Sort.Elem)
		e := fmt.Sprintf("(select (select %s %s) (+ %s k))", h.S, SlArr(s).S, SlOff(s).S)
		st.assume(T(fmt.Sprintf("(forall ((k Int)) (! (=> (and (<= 0 k) (< k %s)) (and (<= 0 (s_arr %s)) (< (s_arr %s) %s) (<= 0 (s_off %s)) (<= 0 (s_len %s)) (<= (s_len %s) (s_cap %s)) (=> (= (s_arr %s) 0) (= (s_cap %s) 0)))) :pattern (%s)))",
			SlLen(s).S, e, e, st.next.S, e, e, e, e, e, e, e), SBool))
	}
}

// callByContract: the modular rule — assert the callee's precondition, havoc what it modifies,
// assume its postcondition.
func (fc *FuncCtx) callByContract(con *Contract, ref *FuncRef, fn *types.Func, args []Term, call *ast.CallExpr, st *St) []Term {
	if con.Trusted {
		fc.Assumed["assumed contract of "+con.Key] = true
	} else if con.Key != fc.Ref.Key {
		fc.Deps[con.Key] = true
	}
	env := fc.newEnv(st)
	env.calleeCon = con
	pre := st.clone()
	env.old = pre
	// bind formals
	var names []string
	if con.Extern {
		names = con.ParamNames
	} else if ref != nil {
		for _, id := range formalObjs(ref) {
			if id == nil {
				names = append(names, "_")
			} else {
				names = append(names, id.Name)
			}
		}
	}
	var wraps []*FuncVal
	for i, n := range names {
		if i < len(args) {
			a := args[i]
			if like, ok := con.ParamSpecs[n]; ok && strings.HasPrefix(like, "like ") && a.Fn != nil {
				// the callee assumes its parameter behaves like a declared function: check the actual
				if msg := fc.checkLikeArg(like, a.Fn); msg != "" {
					fc.nanon++
					fc.oblig(st, fmt.Sprintf("call.%s.param.%s.like#%d", con.Key, n, fc.nanon), False, "the function value passed for "+n+" must be "+like+": "+msg, "", nil)
				} else {
					fc.checkLikeBinding(like, a.Fn, con.Key, n, st)
				}
			}
			if a.Fn != nil && (a.Fn.Kind == "lit" || a.Fn.Kind == "named") && !con.Extern {
				// a closure / named function handed to a callee as a callback: it gets a call-site trace so that
				// the callee's trace postconditions (which calls happened, on what) can be used
				fc.nwrap++
				w := &FuncVal{Kind: "wrap", Name: fmt.Sprintf("cb%d", fc.nwrap), Inner: a.Fn, Sig: a.Fn.Sig}
				if like, ok := con.ParamSpecs[n]; ok && strings.HasPrefix(like, "like ") {
					// the callee checks the calls of this parameter against the declared function's contract
					// (including its variant) itself
					w.LikeChecked = true
				}
				if w.Sig == nil && a.Fn.Ref != nil && a.Fn.Ref.Obj != nil {
					w.Sig, _ = a.Fn.Ref.Obj.Type().(*types.Signature)
				}
				if w.Sig != nil {
					st.trn[w.Name] = fc.entryTrn(w.Name)
					st.tra[w.Name] = fc.entryTra(w)
					pre.trn[w.Name] = st.trn[w.Name]
					pre.tra[w.Name] = st.tra[w.Name]
					a = Term{S: "0", Sort: a.Sort, Fn: w}
					wraps = append(wraps, w)
				}
			}
			env.bound[n] = a
		}
	}
	if call != nil && fn != nil {
		env.tparams = fc.tsubstFor(call, fn)
	} else if call == nil && fc.fvTArgs != nil {
		env.tparams = fc.fvTArgs
	}
	for _, g := range con.GhostIns {
		if t, ok := fc.pendingPass[g.Name]; ok {
			env.bound[g.Name] = t
			delete(fc.pendingPass, g.Name)
		} else {
			fc.unsupported(st, "call of "+con.Key+" without a value for its ghost parameter "+g.Name+" (needs `at before call ...: pass "+g.Name+" = e`)", "")
			return fc.deadResults(call)
		}
	}
	ord := ""
	if call != nil {
		ord = fmt.Sprintf("%s#%d", fc.callName[call], fc.callOrd[call])
	} else {
		fc.nanon++
		ord = fmt.Sprintf("%s#v%d", con.Key, fc.nanon)
	}
	pos := ""
	if call != nil {
		pos = fc.pos(call)
	}
	// formals whose actual is unknown here (the `_` positions of a like-contract): a precondition that mentions
	// one of them cannot be evaluated at this call; it is checked where the closure that fixes them is handed over
	unknownFormals := map[string]bool{}
	for i, n := range names {
		if i < len(args) && args[i].Fn == nil && args[i].Sort != nil && args[i].Sort.Kind == KFunc && args[i].S == "0" {
			unknownFormals[n] = true
		}
	}
	for _, r := range con.Requires {
		if len(unknownFormals) > 0 && specMentions(r.Expr, unknownFormals) {
			fc.Assumed["precondition "+r.Name+" of "+con.Key+" concerns an argument fixed by the closure behind a like-parameter: checked where that closure is handed over, assumed at the call through the parameter"] = true
			continue
		}
		fc.oblig(st, "call."+ord+".pre."+r.Name, fc.spec(r.Expr, env), "precondition of "+con.Key+": "+r.Src, pos, nil)
		st.assume(fc.spec(r.Expr, env))
	}
	if con.Decreases != nil && fc.Con.Decreases != nil && (con.Key == fc.Con.Key || con.RecGroup != "" && con.RecGroup == fc.Con.RecGroup) {
		// (mutually) recursive call: the variant at the callee's arguments is non-negative and smaller than at entry
		// `decreases lex(a, b, ...)`: lexicographic order on tuples of non-negative integers
		comps := func(e SExpr) []SExpr {
			if c, ok := e.(SCall); ok && c.Fn == "lex" && len(c.Args) >= 1 {
				return c.Args
			}
			return []SExpr{e}
		}
		c1, c0 := comps(con.Decreases), comps(fc.Con.Decreases)
		if len(c1) != len(c0) {
			fc.unsupported(st, "variants of different arity inside one recursion group", pos)
		} else {
			e0 := fc.newEnv(fc.entry)
			var nonneg, less []Term
			eqSoFar := True
			for k := range c1 {
				v1 := fc.spec(c1[k], env)
				v0 := fc.spec(c0[k], e0)
				nonneg = append(nonneg, Le(IntLit(0), v1))
				less = append(less, And(eqSoFar, Lt(v1, v0)))
				eqSoFar = And(eqSoFar, Eq(v1, v0))
			}
			fc.oblig(st, "call."+ord+".decreases", And(And(nonneg...), Or(less...)), "recursion terminates: decreases "+con.DecSrc, pos, nil)
		}
	}
	// panic paths of the callee: it may have modified what its contract lets it modify, and its onpanic
	// clauses hold
	calleePanics := func(s2 *St, what string) {
		penv := fc.newEnv(s2)
		penv.calleeCon = con
		penv.old = pre
		for k, v := range env.bound {
			penv.bound[k] = v
		}
		penv.tparams = env.tparams
		for _, m := range con.Modifies {
			if strings.HasPrefix(m, "glob:") {
				g := strings.TrimPrefix(m, "glob:")
				if ty, ok := fc.E.CS.Globals[g]; ok {
					so := fc.sortOfSType(ty, nil)
					fc.globOf(pre, g, so)
					fc.globOf(s2, g, so)
					s2.glob[g] = fc.fresh("glob_"+g, so)
				}
			} else if m == "maps" || m == "heap" || m == "bufs" {
				// conservatively unknown after a panic inside the callee
				fc.materialiseStores(s2, true, false)
				for k := range s2.mdom {
					s2.mdom[k] = fc.fresh("mdom", s2.mdom[k].Sort)
				}
				for k := range s2.mval {
					s2.mval[k] = fc.fresh("mval", s2.mval[k].Sort)
				}
			}
		}
		for _, cl := range con.OnPanic {
			s2.assume(fc.spec(cl.Expr, penv))
		}
		fc.panicAt(s2, pos, what)
	}
	switch con.Panics {
	case "iff":
		pc := fc.spec(con.PanicsCond, env)
		// the callee panics exactly when pc holds: that is a panic site of the caller
		s2 := st.clone()
		s2.assume(pc)
		calleePanics(s2, "callee "+con.Key+" panics")
		st.assume(Not(pc))
	case "may":
		if fc.Con.Panics != "may" && fc.Con.Panics != "" || len(fc.Con.OnPanic) > 0 {
			s2 := st.clone()
			calleePanics(s2, "callee "+con.Key+" may panic")
		}
	}
	// a callback parameter of the caller handed to the callee may be called by it: its trace is havocked
	// (the callee's postcondition says what was called)
	{
		var fnames []string
		for n, a := range env.bound {
			if a.Fn != nil && (a.Fn.Kind == "param" || a.Fn.Kind == "wrap") {
				fnames = append(fnames, n)
			}
		}
		sortStrings(fnames)
		done := map[string]bool{}
		for _, n := range fnames {
			nm := env.bound[n].Fn.Name
			if done[nm] {
				continue
			}
			done[nm] = true
			if _, ok := st.trn[nm]; !ok {
				st.trn[nm] = fc.entryTrn(nm)
				st.tra[nm] = fc.entryTra(env.bound[n].Fn)
			}
			pre.trn[nm] = st.trn[nm]
			pre.tra[nm] = st.tra[nm]
			nt := fc.fresh("trn", SInt)
			st.assume(Le(st.trn[nm], nt))
			oldN := st.trn[nm]
			st.trn[nm] = nt
			var na []Term
			for _, t := range st.tra[nm] {
				n := fc.fresh("tra", t.Sort)
				// a call trace is a history: the entries recorded before the call stay what they were
				st.assume(T(fmt.Sprintf("(forall ((j Int)) (! (=> (< j %s) (= (select %s j) (select %s j))) :pattern ((select %s j))))", oldN.S, n.S, t.S, n.S), SBool))
				na = append(na, n)
			}
			st.tra[nm] = na
		}
	}
	// effects
	for _, m := range con.Modifies {
		switch {
		case m == "heap":
			nn := fc.fresh("next", SInt)
			st.assume(Le(st.next, nn))
			st.next = nn
			for _, es := range fc.heapElems {
				fc.heapOf(st, es)
				st.heaps[es.SMT()] = fc.fresh("heap", heapSort(es))
			}
			st.mine = fc.havocMineAfterCall(st, pre)
		case m == "maps":
			nn := fc.fresh("next", SInt)
			st.assume(Le(st.next, nn))
			st.next = nn
			fc.materialiseStores(st, true, false)
			fc.materialiseStores(pre, true, false)
			for k := range st.mdom {
				so := st.mdom[k].Sort
				st.mdom[k] = fc.fresh("mdom", so)
			}
			for k := range st.mval {
				so := st.mval[k].Sort
				st.mval[k] = fc.fresh("mval", so)
			}
		case m == "bufs":
			nn := fc.fresh("next", SInt)
			st.assume(Le(st.next, nn))
			st.next = nn
			fc.bufHeap(pre)
			fc.bufHeap(st)
			st.bufh = fc.fresh("bufh", st.bufh.Sort)
		case strings.HasPrefix(m, "glob:"):
			g := strings.TrimPrefix(m, "glob:")
			ty, ok := fc.E.CS.Globals[g]
			if !ok {
				fc.unsupported(st, "modifies undeclared global "+g, pos)
				break
			}
			so := fc.sortOfSType(ty, nil)
			fc.globOf(pre, g, so)
			fc.globOf(st, g, so)
			st.glob[g] = fc.fresh("glob_"+g, so)
		case strings.HasPrefix(m, "trace:"):
			// callee calls the callback bound to this formal: trace of the actual is havocked
			f := strings.TrimPrefix(m, "trace:")
			if a, ok := env.bound[f]; ok && a.Fn != nil && a.Fn.Kind == "param" {
				nm := a.Fn.Name
				if _, ok := st.trn[nm]; !ok {
					st.trn[nm] = fc.entryTrn(nm)
					st.tra[nm] = fc.entryTra(a.Fn)
				}
				pre.trn[nm] = st.trn[nm]
				pre.tra[nm] = st.tra[nm]
				st.trn[nm] = fc.fresh("trn", SInt)
				var na []Term
				for _, t := range st.tra[nm] {
					na = append(na, fc.fresh("tra", t.Sort))
				}
				st.tra[nm] = na
			}
		default:
			fc.unsupported(st, "modifies "+m, pos)
		}
	}
	// results
	var results []Term
	var rtypes []types.Type
	if fn != nil {
		sig := fn.Type().(*types.Signature)
		if call != nil {
			t := fc.typeOf(call)
			if tup, ok := t.(*types.Tuple); ok {
				for i := 0; i < tup.Len(); i++ {
					rtypes = append(rtypes, tup.At(i).Type())
				}
			} else if sig.Results().Len() == 1 {
				rtypes = append(rtypes, t)
			}
		} else {
			if fc.fvSig != nil {
				sig = fc.fvSig
			}
			for i := 0; i < sig.Results().Len(); i++ {
				rtypes = append(rtypes, sig.Results().At(i).Type())
			}
		}
	}
	env.st = st
	for i, rt := range rtypes {
		so := fc.sortOf(rt)
		r := fc.fresh("res_"+sanitize(con.Key), so)
		results = append(results, r)
		if i == 0 {
			env.bound["result"] = r
		}
		env.bound[fmt.Sprintf("result%d", i)] = r
		if so.Kind == KSlice {
			fc.assumeValidSlice(st, r)
		}
	}
	fc.lastCalleeGhosts = map[string]Term{}
	for _, g := range con.Ghosts {
		_ = g
	}
	for _, g := range con.Ghosts {
		so := fc.sortOfSType(g.Type, env)
		env.bound[g.Name] = fc.fresh("cg_"+g.Name, so)
		fc.lastCalleeGhosts[g.Name] = env.bound[g.Name]
	}
	// a postcondition of the callee that cannot be translated at this call site (it applies a callback
	// that is not a pure function here) is simply not assumed: sound, the result stays unconstrained
	if con.Returns != nil && len(results) > 0 {
		if v, ok := fc.specTry(con.Returns, env); ok {
			st.assume(fc.equal(results[0], v))
		} else {
			fc.Assumed["note: the returns clause of "+con.Key+" is not usable at a call site in "+fc.Ref.Key+" (callback is not a pure function there); result left unconstrained"] = true
		}
	}
	for _, e := range con.Ensures {
		if t, ok := fc.specTry(e.Expr, env); ok {
			st.assume(t)
			if e.Assumed {
				fc.Assumed["assumed (unproved) postcondition "+e.Name+" of "+con.Key+": "+e.Src] = true
			}
		}
	}
	// callbacks that are closures over functions under contract: effects and panics of the calls the callee made
	for _, w := range wraps {
		fc.afterWrappedCalls(w, pre, st, pos, con)
	}
	return results
}

// afterWrappedCalls: the callee returned normally, so every call it made of the wrapped function value
// returned normally: if that function panics exactly under C, then C is false on the arguments of every
// recorded call; the global state components it modifies are havocked; and the call as a whole may panic.
func (fc *FuncCtx) afterWrappedCalls(w *FuncVal, pre, st *St, pos string, callee *Contract) {
	n0, n1 := pre.trn[w.Name], st.trn[w.Name]
	arrs := st.tra[w.Name]
	fc.qn++
	j := T(fmt.Sprintf("j_q%d", fc.qn), SInt)
	var args []Term
	for _, a := range arrs {
		args = append(args, Select(a, j))
	}
	cond, mods, known := fc.panicCondOf(w.Inner, args, st, 0)
	for _, g := range mods {
		// a component the callee itself lists under modifies is described by the callee's own postcondition
		// (which accounts for what its callbacks did)
		listed := false
		for _, m := range callee.Modifies {
			if m == "glob:"+g || "store:"+m == g {
				listed = true
			}
		}
		if listed {
			continue
		}
		if g == "store:maps" {
			// the function behind the callback writes maps (its contract says so): whatever the callee's contract
			// says about its own effects, the maps are unknown afterwards
			nn := fc.fresh("next", SInt)
			st.assume(Le(st.next, nn))
			st.next = nn
			fc.materialiseStores(st, true, false)
			for k := range st.mdom {
				st.mdom[k] = fc.fresh("mdom", st.mdom[k].Sort)
			}
			for k := range st.mval {
				st.mval[k] = fc.fresh("mval", st.mval[k].Sort)
			}
			continue
		}
		if g == "store:bufs" {
			fc.bufHeap(st)
			st.bufh = fc.fresh("bufh", st.bufh.Sort)
			continue
		}
		if ty, ok := fc.E.CS.Globals[g]; ok {
			so := fc.sortOfSType(ty, nil)
			fc.globOf(st, g, so)
			st.glob[g] = fc.fresh("glob_"+g, so)
		}
	}
	rng := And(Le(n0, j), Lt(j, n1))
	// recursion through the callback: if the function behind it belongs to the recursion group of the function
	// under verification, every call the callee made must decrease the variant (the callee's postcondition has to
	// say on which arguments it calls its parameter; the variant is evaluated in the state after the call)
	if comps, src, ok := fc.recVariantOf(w.Inner, args, st, 0); ok && fc.Con.Decreases != nil && !w.LikeChecked {
		c0 := lexComps(fc.Con.Decreases)
		if len(c0) != len(comps) {
			fc.unsupported(st, "variants of different arity inside one recursion group", pos)
		} else {
			e0 := fc.newEnv(fc.entry)
			var nonneg, less []Term
			eqSoFar := True
			for k := range comps {
				v0 := fc.spec(c0[k], e0)
				nonneg = append(nonneg, Le(IntLit(0), comps[k]))
				less = append(less, And(eqSoFar, Lt(comps[k], v0)))
				eqSoFar = And(eqSoFar, Eq(comps[k], v0))
			}
			goal := T("(forall (("+j.S+" Int)) "+Implies(rng, And(And(nonneg...), Or(less...))).S+")", SBool)
			fc.nanon++
			fc.oblig(st, fmt.Sprintf("call.%s.callback#%d.decreases", callee.Key, fc.nanon), goal, "recursion through a callback terminates: every call the callee makes decreases "+src, pos, nil)
		}
	}
	if known {
		if cond.S != "false" {
			// may panic: some call's panic condition held
			if fc.Con.Panics != "may" {
				s2 := st.clone()
				s2.assume(T("(exists (("+j.S+" Int)) "+And(rng, cond).S+")", SBool))
				fc.panicAt(s2, pos, "a callback passed to the callee panics")
			}
			st.assume(T("(forall (("+j.S+" Int)) "+Implies(rng, Not(cond)).S+")", SBool))
		}
	} else if fc.Con.Panics != "may" {
		s2 := st.clone()
		fc.panicAt(s2, pos, "a callback passed to the callee may panic")
	}
}

// panicCondOf: under which condition does calling fv on args panic, and which global state components
// may it modify?  known=false when the function value is too complex to tell.
func (fc *FuncCtx) panicCondOf(fv *FuncVal, args []Term, st *St, depth int) (cond Term, mods []string, known bool) {
	if depth > 6 {
		return False, nil, false
	}
	switch fv.Kind {
	case "param":
		return False, nil, true // callbacks of the verified function are total
	case "wrap":
		return fc.panicCondOf(fv.Inner, args, st, depth+1)
	case "named":
		con := fc.E.CS.Funcs[fv.Name]
		if con == nil {
			// no contract: small pure helpers are inlined elsewhere; here we only know what a scan tells us
			if fv.Ref != nil && fv.Ref.Decl.Body != nil && !mayPanicSyntactically(fv.Ref.Decl.Body) {
				return False, nil, true
			}
			return False, nil, false
		}
		for _, m := range con.Modifies {
			if strings.HasPrefix(m, "glob:") {
				mods = append(mods, strings.TrimPrefix(m, "glob:"))
			} else if m == "maps" || m == "bufs" {
				mods = append(mods, "store:"+m)
			}
		}
		env := fc.newEnv(st)
		env.calleeCon = con
		var names []string
		if con.Extern {
			names = con.ParamNames
		} else if fv.Ref != nil {
			for _, id := range formalObjs(fv.Ref) {
				if id != nil {
					names = append(names, id.Name)
				} else {
					names = append(names, "_")
				}
			}
		}
		for i, n := range names {
			if i < len(args) {
				env.bound[n] = args[i]
			}
		}
		switch con.Panics {
		case "never":
			return False, mods, true
		case "iff":
			return fc.spec(con.PanicsCond, env), mods, true
		}
		return False, mods, false
	case "lit":
		// a literal whose body is a single call (return G(...) or G(...)): the condition of that call
		if len(fv.Lit.Body.List) != 1 {
			return False, nil, false
		}
		var ce ast.Expr
		switch s := fv.Lit.Body.List[0].(type) {
		case *ast.ReturnStmt:
			if len(s.Results) == 1 {
				ce = s.Results[0]
			}
		case *ast.ExprStmt:
			ce = s.X
		}
		if ce == nil {
			return False, nil, false
		}
		call, ok := ast.Unparen(ce).(*ast.CallExpr)
		if !ok {
			// a plain expression (field access, arithmetic without division, ...) cannot panic
			bad := false
			ast.Inspect(ce, func(n ast.Node) bool {
				switch x := n.(type) {
				case *ast.CallExpr, *ast.IndexExpr, *ast.SliceExpr, *ast.TypeAssertExpr, *ast.StarExpr:
					bad = true
				case *ast.BinaryExpr:
					if x.Op.String() == "/" || x.Op.String() == "%" {
						bad = true
					}
				}
				return !bad
			})
			return False, nil, !bad
		}
		work := st.clone()
		for k, v := range fv.Env.vars {
			if _, ok := work.vars[k]; !ok {
				work.vars[k] = v
			}
		}
		i := 0
		for _, f := range fv.Lit.Type.Params.List {
			for _, nm := range f.Names {
				if obj := fv.Info.Defs[nm]; obj != nil && i < len(args) {
					work.vars[obj] = args[i]
				}
				i++
			}
		}
		fc.infoStack = append(fc.infoStack, fv.Info)
		defer func() { fc.infoStack = fc.infoStack[:len(fc.infoStack)-1] }()
		fn := fc.calleeFunc(call)
		if fn == nil {
			return False, nil, false
		}
		nobl := len(fc.Obls)
		var cargs []Term
		for _, a := range call.Args {
			cargs = append(cargs, fc.evalPure(a, work))
		}
		fc.Obls = fc.Obls[:nobl]
		key := funcKey(fn)
		var ref *FuncRef
		if fn.Pkg() != nil && fc.E.Pkgs[fn.Pkg().Path()] == nil {
			key = "ext:" + fn.Pkg().Path() + "." + strings.TrimPrefix(key, fn.Pkg().Name()+".")
		} else {
			ref = fc.E.FuncDecl[key]
		}
		return fc.panicCondOf(&FuncVal{Kind: "named", Name: key, Ref: ref}, cargs, st, depth+1)
	}
	return False, nil, false
}

func lexComps(e SExpr) []SExpr {
	if c, ok := e.(SCall); ok && c.Fn == "lex" && len(c.Args) >= 1 {
		return c.Args
	}
	return []SExpr{e}
}

// recVariantOf: if calling fv on args is (a closure around) a call of a function of the recursion group of the
// function under verification, the components of that function's variant at those arguments.
func (fc *FuncCtx) recVariantOf(fv *FuncVal, args []Term, st *St, depth int) ([]Term, string, bool) {
	if fv == nil || depth > 6 {
		return nil, "", false
	}
	switch fv.Kind {
	case "wrap":
		return fc.recVariantOf(fv.Inner, args, st, depth+1)
	case "named":
		con := fc.E.CS.Funcs[fv.Name]
		if con == nil || con.Decreases == nil || !(con.Key == fc.Con.Key || con.RecGroup != "" && con.RecGroup == fc.Con.RecGroup) {
			return nil, "", false
		}
		env := fc.newEnv(st)
		env.calleeCon = con
		if fv.Ref != nil {
			for i, id := range formalObjs(fv.Ref) {
				if id != nil && i < len(args) {
					env.bound[id.Name] = args[i]
				}
			}
		}
		var out []Term
		for _, c := range lexComps(con.Decreases) {
			out = append(out, fc.spec(c, env))
		}
		return out, con.DecSrc, true
	case "lit":
		if fv.Lit == nil || len(fv.Lit.Body.List) != 1 {
			return nil, "", false
		}
		var ce ast.Expr
		switch s := fv.Lit.Body.List[0].(type) {
		case *ast.ReturnStmt:
			if len(s.Results) == 1 {
				ce = s.Results[0]
			}
		case *ast.ExprStmt:
			ce = s.X
		}
		call, ok := ast.Unparen(ce).(*ast.CallExpr)
		if ce == nil || !ok {
			return nil, "", false
		}
		work := st.clone()
		for k, v := range fv.Env.vars {
			if _, ok := work.vars[k]; !ok {
				work.vars[k] = v
			}
		}
		i := 0
		for _, f := range fv.Lit.Type.Params.List {
			for _, nm := range f.Names {
				if obj := fv.Info.Defs[nm]; obj != nil && i < len(args) {
					work.vars[obj] = args[i]
				}
				i++
			}
		}
		fc.infoStack = append(fc.infoStack, fv.Info)
		defer func() { fc.infoStack = fc.infoStack[:len(fc.infoStack)-1] }()
		fn := fc.calleeFunc(call)
		if fn == nil {
			return nil, "", false
		}
		key := funcKey(fn)
		con := fc.E.CS.Funcs[key]
		if con == nil || con.Decreases == nil || !(con.Key == fc.Con.Key || con.RecGroup != "" && con.RecGroup == fc.Con.RecGroup) {
			return nil, "", false
		}
		nobl := len(fc.Obls)
		var cargs []Term
		for _, a := range call.Args {
			cargs = append(cargs, fc.evalPure(a, work))
		}
		fc.Obls = fc.Obls[:nobl]
		return fc.recVariantOf(&FuncVal{Kind: "named", Name: key, Ref: fc.E.FuncDecl[key]}, cargs, st, depth+1)
	}
	return nil, "", false
}

// mayPanicSyntactically: does a function body contain anything that can panic (calls, indexing, ...)?
func mayPanicSyntactically(b *ast.BlockStmt) bool {
	found := false
	ast.Inspect(b, func(n ast.Node) bool {
		switch n.(type) {
		case *ast.CallExpr, *ast.IndexExpr, *ast.SliceExpr, *ast.TypeAssertExpr, *ast.StarExpr:
			found = true
		case *ast.BinaryExpr:
			if n.(*ast.BinaryExpr).Op.String() == "/" || n.(*ast.BinaryExpr).Op.String() == "%" {
				found = true
			}
		}
		return !found
	})
	return found
}

func (fc *FuncCtx) havocMineAfterCall(st *St, pre *St) Term {
	// arrays allocated by a callee are not "mine" unless its contract says the result is fresh; keep mine on
	// pre-existing refs, unknown on new ones
	nm := fc.fresh("mine", st.mine.Sort)
	st.assume(T(fmt.Sprintf("(forall ((r Int)) (! (=> (< r %s) (= (select %s r) (select %s r))) :pattern ((select %s r))))", pre.next.S, nm.S, pre.mine.S, nm.S), SBool))
	return nm
}

// parseLike parses "like F(_, $0, $1)": the callback's k-th argument is F's formal where $k stands.
func parseLike(s string) (string, []int, error) {
	s = strings.TrimSpace(strings.TrimPrefix(s, "like "))
	i := strings.Index(s, "(")
	if i < 0 || !strings.HasSuffix(s, ")") {
		return "", nil, fmt.Errorf("like F(args)")
	}
	name := strings.TrimSpace(s[:i])
	var m []int
	for _, a := range strings.Split(s[i+1:len(s)-1], ",") {
		a = strings.TrimSpace(a)
		if a == "_" {
			m = append(m, -1)
		} else if strings.HasPrefix(a, "$") {
			var k int
			fmt.Sscan(a[1:], &k)
			m = append(m, k)
		} else if strings.HasPrefix(a, "#") {
			// an integer constant at this position: encoded as -(c+2)
			var c int
			if _, err := fmt.Sscan(a[1:], &c); err != nil || c < 0 {
				return "", nil, fmt.Errorf("bad like constant %q", a)
			}
			m = append(m, -(c + 2))
		} else {
			return "", nil, fmt.Errorf("bad like argument %q", a)
		}
	}
	return name, m, nil
}

// checkLikeArg: a function value passed for a parameter with a like-contract must be (a) a parameter of
// the caller with the same like-contract, or (b) a literal whose body is exactly `return F(...)` with
// its own parameters at the positions the like-contract names (free positions may be any expression).
func (fc *FuncCtx) checkLikeArg(like string, fv *FuncVal) string {
	target, mapping, err := parseLike(like)
	if err != nil {
		return err.Error()
	}
	switch fv.Kind {
	case "param":
		if fc.Con.ParamSpecs[fv.Name] == like {
			return ""
		}
		return "parameter " + fv.Name + " of the caller has no matching like-contract"
	case "named":
		if strings.HasSuffix(fv.Name, "."+target) {
			ok := true
			for i, m := range mapping {
				if m != i {
					ok = false
				}
			}
			if ok {
				return ""
			}
		}
		// a named wrapper `func W(p..) R { return F(x, p..) }` is treated like the literal with that body
		if lit := namedAsLiteral(fv); lit != nil {
			return fc.checkLikeArg(like, lit)
		}
		return "named function " + fv.Name + " is not " + target
	case "lit":
		if len(fv.Lit.Body.List) != 1 {
			return "literal body is not a single return"
		}
		rs, ok := fv.Lit.Body.List[0].(*ast.ReturnStmt)
		if !ok || len(rs.Results) != 1 {
			return "literal body is not a single return"
		}
		call, ok := ast.Unparen(rs.Results[0]).(*ast.CallExpr)
		if !ok {
			return "literal does not return a call"
		}
		id, ok := ast.Unparen(call.Fun).(*ast.Ident)
		if !ok || id.Name != target || len(call.Args) != len(mapping) {
			return "literal does not call " + target
		}
		var pnames []string
		for _, f := range fv.Lit.Type.Params.List {
			for _, nm := range f.Names {
				pnames = append(pnames, nm.Name)
			}
		}
		for i, m := range mapping {
			if m <= -2 {
				bl, ok := ast.Unparen(call.Args[i]).(*ast.BasicLit)
				if !ok || bl.Value != fmt.Sprint(-(m+2)) {
					return fmt.Sprintf("argument %d of the call is not the constant %d", i, -(m + 2))
				}
				continue
			}
			if m < 0 {
				continue
			}
			a, ok := call.Args[i].(*ast.Ident)
			if !ok || m >= len(pnames) || a.Name != pnames[m] {
				return fmt.Sprintf("argument %d of the call is not the literal's parameter #%d", i, m)
			}
		}
		return ""
	}
	return "unsupported function value"
}

// namedAsLiteral: a declared function whose body is a single `return F(...)` seen as the literal with that body
// (its free variables are package-level names only).
func namedAsLiteral(fv *FuncVal) *FuncVal {
	if fv == nil || fv.Ref == nil || fv.Ref.Decl == nil || fv.Ref.Decl.Body == nil || len(fv.Ref.Decl.Body.List) != 1 || fv.Ref.Decl.Recv != nil {
		return nil
	}
	if _, ok := fv.Ref.Decl.Body.List[0].(*ast.ReturnStmt); !ok {
		return nil
	}
	lit := &ast.FuncLit{Type: fv.Ref.Decl.Type, Body: fv.Ref.Decl.Body}
	return &FuncVal{Kind: "lit", Lit: lit, Env: &St{vars: map[types.Object]Term{}}, Sig: fv.Sig, Info: fv.Ref.Pkg.TypesInfo}
}

// checkLikeBinding: a literal `func(..) { return F(x, y, $k..) }` handed over for a like-parameter fixes the
// arguments of F at the free positions.  The preconditions of F that concern ONLY those arguments are proved
// here (in the closure's defining state); the ones that concern the callback's own arguments are proved at
// each call through the parameter.
func (fc *FuncCtx) checkLikeBinding(like string, fv *FuncVal, calleeKey, pname string, st *St) {
	if fv != nil && fv.Kind == "named" {
		// the facade functions refer to each other in a cycle: each (function, like-contract) pair is examined once
		// per hand-over (the check is coinductive: a pair met again is the one being established)
		vk := fv.Name + "|" + like
		if fc.likeVisiting == nil {
			fc.likeVisiting = map[string]bool{}
		}
		if fc.likeVisiting[vk] {
			return
		}
		fc.likeVisiting[vk] = true
		defer delete(fc.likeVisiting, vk)
		if lit := namedAsLiteral(fv); lit != nil {
			fv = lit
		}
	}
	if fv == nil || fv.Kind != "lit" || fv.Lit == nil || len(fv.Lit.Body.List) != 1 {
		return
	}
	target, mapping, err := parseLike(like)
	if err != nil {
		return
	}
	rs, ok := fv.Lit.Body.List[0].(*ast.ReturnStmt)
	if !ok || len(rs.Results) != 1 {
		return
	}
	call, ok := ast.Unparen(rs.Results[0]).(*ast.CallExpr)
	if !ok {
		return
	}
	key := fc.Pkg.Name + "." + target
	tcon := fc.E.CS.Funcs[key]
	ref := fc.E.FuncDecl[key]
	if tcon == nil || ref == nil || len(tcon.Requires) == 0 {
		return
	}
	work := st.clone()
	for k, v := range fv.Env.vars {
		if _, ok := work.vars[k]; !ok {
			work.vars[k] = v
		}
	}
	env := fc.newEnv(st)
	env.calleeCon = tcon
	fixed := map[string]bool{}
	open := map[string]bool{}
	fc.infoStack = append(fc.infoStack, fv.Info)
	nobl := len(fc.Obls)
	for i, id := range formalObjs(ref) {
		if id == nil || i >= len(mapping) || i >= len(call.Args) {
			continue
		}
		if mapping[i] == -1 {
			func() {
				defer func() { recover() }()
				env.bound[id.Name] = fc.evalPure(call.Args[i], work)
				fixed[id.Name] = true
			}()
		} else {
			open[id.Name] = true
		}
	}
	fc.Obls = fc.Obls[:nobl]
	fc.infoStack = fc.infoStack[:len(fc.infoStack)-1]
	// a fixed argument that is itself a function value for a like-parameter of the target: check it the same way
	for fname := range fixed {
		if lk, ok := tcon.ParamSpecs[fname]; ok && strings.HasPrefix(lk, "like ") {
			if v := env.bound[fname]; v.Fn != nil {
				if msg := fc.checkLikeArg(lk, v.Fn); msg != "" {
					fc.nanon++
					fc.oblig(st, fmt.Sprintf("call.%s.param.%s.like#%d", key, fname, fc.nanon), False, "the function value fixed for "+fname+" of "+key+" must be "+lk+": "+msg, "", nil)
				} else {
					fc.checkLikeBinding(lk, v.Fn, key, fname, st)
				}
			}
		}
	}
	for _, r := range tcon.Requires {
		if !specMentions(r.Expr, fixed) || specMentions(r.Expr, open) {
			continue
		}
		if t, ok := fc.specTry(r.Expr, env); ok {
			fc.nanon++
			fc.oblig(st, fmt.Sprintf("call.%s.param.%s.like.pre.%s#%d", calleeKey, pname, r.Name, fc.nanon), t, "precondition of "+key+" on the arguments fixed by the closure handed over for "+pname+": "+r.Src, "", nil)
		} else {
			fc.nanon++
			fc.oblig(st, fmt.Sprintf("call.%s.param.%s.like.pre.%s#%d", calleeKey, pname, r.Name, fc.nanon), False, "precondition of "+key+" on the arguments fixed by the closure handed over for "+pname+" does not translate here: "+r.Src, "", nil)
		}
	}
}

// specTry translates a spec expression; ok=false (and no error recorded) if it does not translate.
func (fc *FuncCtx) specTry(e SExpr, env *SpecEnv) (Term, bool) {
	n := len(fc.specErrs)
	t := fc.spec(e, env)
	if len(fc.specErrs) > n {
		fc.specErrs = fc.specErrs[:n]
		return t, false
	}
	return t, true
}
