package fovc

import (
	"fmt"
	"go/ast"
	"go/types"
	"strings"
)

// evalIntrinsic handles the few external methods/functions whose model is built into the engine
// (DESIGN §2.6: assumed semantics, listed in every evidence file that used them).
func (fc *FuncCtx) evalIntrinsic(key string, call *ast.CallExpr, recvExpr ast.Expr, st *St) ([]Term, bool) {
	switch key {
	case "ext:bytes.Buffer.WriteString", "ext:bytes.Buffer.WriteByte", "ext:bytes.Buffer.String":
		fc.Assumed["bytes.Buffer: WriteString/WriteByte append to the content, String returns it (assumed)"] = true
		if recvExpr == nil {
			return nil, false
		}
		rt := fc.typeOf(recvExpr)
		_, isPtr := types.Unalias(rt).Underlying().(*types.Pointer)
		var content Term
		var ref Term
		if isPtr {
			ref = fc.eval(recvExpr, st)
			content = Select(fc.bufHeap(st), ref)
		} else {
			content = fc.eval(recvExpr, st)
		}
		switch {
		case strings.HasSuffix(key, ".String"):
			return []Term{content}, true
		case strings.HasSuffix(key, ".WriteString"):
			a := fc.eval(call.Args[0], st)
			var nc Term
			if content.Sort.Kind == KBStr {
				nc = fc.bstrConcat(content, a, st)
			} else {
				nc = App(SString, "str.++", content, a)
			}
			fc.setBuf(recvExpr, isPtr, ref, nc, st)
			return []Term{T("0", SInt), T("0", SInt)}, true
		default: // WriteByte
			a := fc.eval(call.Args[0], st)
			var nc Term
			if content.Sort.Kind == KBStr {
				nc = fc.fresh("wb", SBStr)
				st.assume(Eq(BsLen(nc), Add(BsLen(content), IntLit(1))))
				st.assume(Eq(BsArr(nc), Store(BsArr(content), BsLen(content), a)))
			} else {
				nc = App(SString, "str.++", content, App(SString, "str.from_code", a))
			}
			fc.setBuf(recvExpr, isPtr, ref, nc, st)
			return []Term{T("0", SInt)}, true
		}
	case "ext:fmt.Sprintf":
		return fc.evalSprintf(call, st)
	}
	return nil, false
}

func (fc *FuncCtx) setBuf(recvExpr ast.Expr, isPtr bool, ref Term, content Term, st *St) {
	if isPtr {
		st.bufh = fc.nameIt(st, "bufh", Store(fc.bufHeap(st), ref, content))
		return
	}
	fc.assignTo(recvExpr, content, st)
}

// evalSprintf: fmt.Sprintf with a constant format over %s %d %v %%; anything else is an
// uninterpreted function of the format and the arguments.
func (fc *FuncCtx) evalSprintf(call *ast.CallExpr, st *St) ([]Term, bool) {
	if fc.StrMode == "bytes" {
		return nil, false
	}
	fc.Assumed["fmt.Sprintf: %s of a string is the string, %d / %v / %f of a value is a fixed function of the value, %% is a percent sign, other text is copied (assumed fragment)"] = true
	var args []Term
	for _, a := range call.Args[1:] {
		args = append(args, fc.eval(a, st))
	}
	tv, ok := fc.info().Types[call.Args[0]]
	if !ok || tv.Value == nil || call.Ellipsis.IsValid() {
		// non-constant format: uninterpreted
		f := fc.eval(call.Args[0], st)
		return []Term{fc.sprintfUninterp(f, args)}, true
	}
	format := strings.Trim(tv.Value.ExactString(), "\"")
	if s, err := unquoteConst(tv.Value.ExactString()); err == nil {
		format = s
	}
	var parts []Term
	lit := ""
	ai := 0
	flush := func() {
		if lit != "" {
			parts = append(parts, StrLit(lit))
			lit = ""
		}
	}
	for i := 0; i < len(format); i++ {
		c := format[i]
		if c != '%' {
			lit += string(c)
			continue
		}
		if i+1 >= len(format) {
			lit += "%!(NOVERB)"
			continue
		}
		i++
		v := format[i]
		if v == '%' {
			lit += "%"
			continue
		}
		if ai >= len(args) {
			lit += "%!" + string(v) + "(MISSING)"
			continue
		}
		a := args[ai]
		ai++
		flush()
		parts = append(parts, fc.fmtVerb(v, a))
	}
	flush()
	if len(parts) == 0 {
		return []Term{StrLit("")}, true
	}
	if len(parts) == 1 {
		return []Term{parts[0]}, true
	}
	return []Term{App(SString, "str.++", parts...)}, true
}

func unquoteConst(s string) (string, error) {
	var out string
	_, err := fmt.Sscanf(s, "%q", &out)
	return out, err
}

func (fc *FuncCtx) fmtVerb(v byte, a Term) Term {
	if v == 's' && a.Sort.Kind == KString {
		return a
	}
	if v == 'v' && a.Sort.Kind == KString {
		return a
	}
	name := fmt.Sprintf("fmt_%c_%s", v, mangle(a.Sort.SMT()))
	fc.declareFun(name, []*Sort{a.Sort}, SString)
	return App(SString, name, a)
}

// sprintfUninterp: fmt.Sprintf with a non-constant format is an uninterpreted function of the format
// and the arguments in order (one function per argument sort list).
func (fc *FuncCtx) sprintfUninterp(f Term, args []Term) Term {
	name := "fmt_sprintf"
	sorts := []*Sort{SString}
	ts := []Term{f}
	for _, a := range args {
		name += "_" + mangle(a.Sort.SMT())
		sorts = append(sorts, a.Sort)
		ts = append(ts, a)
	}
	fc.declareFun(name, sorts, SString)
	return App(SString, name, ts...)
}

// sinterpConst: frt.SInterP with a constant format.  By SInterP's contract (proved under C14) the
// result is fmt.Sprintf(format, toS(arg0), toS(arg1), ...) with toS(x) == tos_spec(x); with the assumed
// fmt fragment (%s of a string is the string) that is the concatenation below.
func (fc *FuncCtx) sinterpConst(call *ast.CallExpr, st *St) ([]Term, bool) {
	if fc.StrMode == "bytes" || call.Ellipsis.IsValid() || len(call.Args) == 0 {
		return nil, false
	}
	tv, ok := fc.info().Types[call.Args[0]]
	if !ok || tv.Value == nil {
		return nil, false
	}
	format, err := unquoteConst(tv.Value.ExactString())
	if err != nil {
		return nil, false
	}
	sf := fc.E.CS.SpecFuns["tos_spec"]
	if sf == nil {
		return nil, false
	}
	fc.Deps["frt.SInterP"] = true
	fc.Assumed["fmt.Sprintf: %s of a string is the string, %d / %v / %f of a value is a fixed function of the value, %% is a percent sign, other text is copied (assumed fragment)"] = true
	var args []Term
	for _, a := range call.Args[1:] {
		args = append(args, fc.eval(a, st))
	}
	env := fc.newEnv(st)
	var parts []Term
	lit := ""
	ai := 0
	flush := func() {
		if lit != "" {
			parts = append(parts, StrLit(lit))
			lit = ""
		}
	}
	for i := 0; i < len(format); i++ {
		c := format[i]
		if c != '%' {
			lit += string(c)
			continue
		}
		if i+1 >= len(format) {
			lit += "%!(NOVERB)"
			continue
		}
		i++
		v := format[i]
		if v == '%' {
			lit += "%"
			continue
		}
		if ai >= len(args) {
			lit += "%!" + string(v) + "(MISSING)"
			continue
		}
		a := args[ai]
		ai++
		flush()
		tos := fc.applySpecFun(sf, []Term{fc.boxAny(a)}, env)
		if v == 's' || v == 'v' {
			parts = append(parts, tos)
		} else {
			parts = append(parts, fc.fmtVerb(v, tos))
		}
	}
	flush()
	if len(parts) == 0 {
		return []Term{StrLit("")}, true
	}
	if len(parts) == 1 {
		return []Term{parts[0]}, true
	}
	return []Term{App(SString, "str.++", parts...)}, true
}

// smtStrLitValue decodes an SMT string literal produced by StrLit.
func smtStrLitValue(s string) (string, bool) {
	if len(s) < 2 || s[0] != '"' || s[len(s)-1] != '"' {
		return "", false
	}
	body := s[1 : len(s)-1]
	var b strings.Builder
	for i := 0; i < len(body); i++ {
		c := body[i]
		if c == '"' {
			if i+1 < len(body) && body[i+1] == '"' {
				b.WriteByte('"')
				i++
				continue
			}
			return "", false
		}
		if c == '\\' && strings.HasPrefix(body[i:], "\\u{") {
			j := strings.Index(body[i:], "}")
			if j < 0 {
				return "", false
			}
			var v int
			fmt.Sscanf(body[i+3:i+j], "%x", &v)
			b.WriteByte(byte(v))
			i += j
			continue
		}
		b.WriteByte(c)
	}
	return b.String(), true
}

// sprintfConst: fmt.Sprintf with a known format string over the assumed fragment.
func (fc *FuncCtx) sprintfConst(format string, args []Term) Term {
	fc.Assumed["fmt.Sprintf: %s of a string is the string, %d / %v / %f of a value is a fixed function of the value, %% is a percent sign, other text is copied (assumed fragment)"] = true
	var parts []Term
	lit := ""
	ai := 0
	flush := func() {
		if lit != "" {
			parts = append(parts, StrLit(lit))
			lit = ""
		}
	}
	for i := 0; i < len(format); i++ {
		c := format[i]
		if c != '%' {
			lit += string(c)
			continue
		}
		if i+1 >= len(format) {
			lit += "%!(NOVERB)"
			continue
		}
		i++
		v := format[i]
		if v == '%' {
			lit += "%"
			continue
		}
		if ai >= len(args) {
			lit += "%!" + string(v) + "(MISSING)"
			continue
		}
		a := args[ai]
		ai++
		flush()
		parts = append(parts, fc.fmtVerb(v, a))
	}
	flush()
	if len(parts) == 0 {
		return StrLit("")
	}
	if len(parts) == 1 {
		return parts[0]
	}
	return App(SString, "str.++", parts...)
}

// SMTStringValue decodes a string literal printed by a solver.
func SMTStringValue(s string) (string, bool) { return smtStrLitValue(strings.TrimSpace(s)) }
