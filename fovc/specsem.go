package fovc

import (
	"fmt"
	"go/ast"
	"go/types"
	"strings"
)

// SpecEnv: environment for translating a spec expression to SMT.
type SpecEnv struct {
	st        *St
	old       *St
	bound     map[string]Term
	tparams   map[string]*Sort
	calleeCon *Contract // non-nil when translating a callee's contract at a call site
	havocGlob map[string]bool
	inOld     bool
	cur       *St // current state for ghost variables when inside old(): ghosts always have their current value
}

func (fc *FuncCtx) newEnv(st *St) *SpecEnv {
	return &SpecEnv{st: st, old: fc.entry, bound: map[string]Term{}, havocGlob: map[string]bool{}}
}

func (env *SpecEnv) with(name string, t Term) *SpecEnv {
	n := *env
	n.bound = make(map[string]Term, len(env.bound)+1)
	for k, v := range env.bound {
		n.bound[k] = v
	}
	n.bound[name] = t
	return &n
}

func (fc *FuncCtx) specFail(msg string) Term {
	fc.specErrs = append(fc.specErrs, msg)
	return T("false", SBool)
}

func (fc *FuncCtx) sortOfSType(t *SType, env *SpecEnv) *Sort {
	switch t.Kind {
	case "map":
		return ArrayOf(fc.sortOfSType(t.Key, env), fc.sortOfSType(t.Elem, env))
	case "slice":
		e := fc.sortOfSType(t.Elem, env)
		if fc.SliceMode == "heap" {
			fc.needHeap(e)
			return SliceOf(e)
		}
		return fc.Sorts.declSeq(e)
	}
	switch t.Name {
	case "int", "ref", "byte":
		return SInt
	case "bool":
		return SBool
	case "string":
		return fc.strSort()
	case "smtstring":
		return SString
	case "any":
		return fc.Sorts.declUnint("Any")
	}
	if env != nil && env.tparams != nil {
		if s, ok := env.tparams[t.Name]; ok {
			return s
		}
	}
	if fc.tsubst != nil {
		if s, ok := fc.tsubst[t.Name]; ok {
			return s
		}
	}
	// a Go type of the function's package (or qualified pkg.Name), possibly a type parameter
	if gt := fc.lookupGoType(t, env); gt != nil {
		return fc.sortOf(gt)
	}
	if len(t.Name) > 0 && t.Name[0] >= 'A' && t.Name[0] <= 'Z' && !strings.Contains(t.Name, ".") {
		// an engine-level uninterpreted sort (Reflect_Value, Float, Any, ...)
		return fc.Sorts.declUnint(t.Name)
	}
	fc.specFail("unknown spec type " + t.Name)
	return SInt
}

func (fc *FuncCtx) lookupGoType(t *SType, env *SpecEnv) types.Type {
	name := t.Name
	var pkg *types.Package
	if i := strings.Index(name, "."); i >= 0 {
		pn := name[:i]
		name = name[i+1:]
		if p := fc.E.ByName[pn]; p != nil {
			pkg = p.Types
		}
	} else {
		pkg = fc.Pkg.Types
		if env != nil && env.calleeCon != nil {
			if i := strings.Index(env.calleeCon.Key, "."); i >= 0 {
				if p := fc.E.ByName[env.calleeCon.Key[:i]]; p != nil {
					pkg = p.Types
				}
			}
		}
		// type parameter of the verified function?
		if sig, ok := fc.Ref.Obj.Type().(*types.Signature); ok && sig.TypeParams() != nil && (env == nil || env.calleeCon == nil) {
			for i := 0; i < sig.TypeParams().Len(); i++ {
				if sig.TypeParams().At(i).Obj().Name() == name {
					return sig.TypeParams().At(i)
				}
			}
		}
	}
	if pkg == nil {
		return nil
	}
	obj := pkg.Scope().Lookup(name)
	tn, ok := obj.(*types.TypeName)
	if !ok {
		return nil
	}
	ty := tn.Type()
	if len(t.Args) > 0 {
		if n, ok := ty.(*types.Named); ok {
			var targs []types.Type
			for _, a := range t.Args {
				at := fc.lookupGoType(a, env)
				if at == nil {
					switch a.Name {
					case "int":
						at = types.Typ[types.Int]
					case "string":
						at = types.Typ[types.String]
					case "bool":
						at = types.Typ[types.Bool]
					default:
						return nil
					}
				}
				targs = append(targs, at)
			}
			if inst, err := types.Instantiate(nil, n, targs, false); err == nil {
				return inst
			}
		}
	}
	return ty
}

// lookupVar resolves a program variable by name in the state.
func (fc *FuncCtx) lookupVar(st *St, name string) (Term, bool) {
	var best types.Object
	// while a callee is inlined at a call site, its own variables (declared inside its body) win over
	// same-named variables of the functions around it
	if fc.inlineSite != "" && fc.inlineRef != nil {
		lo, hi := fc.inlineRef.Decl.Pos(), fc.inlineRef.Decl.End()
		for o := range st.vars {
			if o.Name() == name && o.Pos() >= lo && o.Pos() <= hi {
				if best == nil || o.Pos() < best.Pos() {
					best = o
				}
			}
		}
		if best != nil {
			return st.vars[best], true
		}
	}
	for o := range st.vars {
		if o.Name() == name {
			if best == nil || o.Pos() < best.Pos() {
				// prefer the outermost/earliest declaration that is live
				best = o
			}
		}
	}
	if best != nil {
		return st.vars[best], true
	}
	return Term{}, false
}

func (fc *FuncCtx) spec(e SExpr, env *SpecEnv) Term {
	switch x := e.(type) {
	case SIdent:
		if t, ok := env.bound[x.Name]; ok {
			return t
		}
		if env.cur != nil {
			if t, ok := env.cur.ghost[x.Name]; ok {
				return t
			}
		}
		if t, ok := env.st.ghost[x.Name]; ok {
			return t
		}
		if env.calleeCon == nil {
			if t, ok := fc.lookupVar(env.st, x.Name); ok {
				return t
			}
			// after a range loop its index stays readable
			for ord, ls := range fc.Con.Loops {
				if ls.Index == x.Name {
					if t, ok := env.st.ghost["$idx"+fmt.Sprint(ord)]; ok {
						return t
					}
				}
			}
		}
		switch x.Name {
		case "nil":
			return T("0", SInt)
		case "next":
			return env.st.next
		}
		// nullary spec function / constant
		if sf, ok := fc.E.CS.SpecFuns[x.Name]; ok && len(sf.Params) == 0 {
			return fc.applySpecFun(sf, nil, env)
		}
		// package-level union constructor variable such as New_TokenType_EOF
		if t, ok := fc.pkgIdent(x.Name, env); ok {
			return t
		}
		return fc.specFail("unknown identifier " + x.Name + " in spec")
	case SInt_:
		return IntLitS(x.V)
	case SStr:
		if fc.StrMode == "bytes" {
			return fc.bstrLit(x.V)
		}
		return StrLit(x.V)
	case SChar:
		return IntLit(int64(x.V))
	case SBoolL:
		return BoolLit(x.V)
	case SUn:
		v := fc.spec(x.X, env)
		if x.Op == "!" {
			return Not(v)
		}
		return App(SInt, "-", v)
	case SBin:
		return fc.specBin(x, env)
	case SQuant:
		n := *env
		n.bound = make(map[string]Term, len(env.bound)+len(x.Vars))
		for k, v := range env.bound {
			n.bound[k] = v
		}
		var decl []string
		for _, v := range x.Vars {
			so := fc.sortOfSType(v.Type, env)
			fc.qn++
			qv := fmt.Sprintf("%s_q%d", sanitize(v.Name), fc.qn)
			n.bound[v.Name] = T(qv, so)
			decl = append(decl, "("+qv+" "+so.SMT()+")")
		}
		body := fc.spec(x.Body, &n)
		q := "exists"
		if x.Forall {
			q = "forall"
		}
		bs := body.S
		if len(x.Triggers) > 0 {
			bs = "(! " + bs
			for _, tr := range x.Triggers {
				bs += " :pattern ("
				for i, te := range tr {
					if i > 0 {
						bs += " "
					}
					bs += fc.spec(te, &n).S
				}
				bs += ")"
			}
			bs += ")"
		}
		return T("("+q+" ("+strings.Join(decl, " ")+") "+bs+")", SBool)
	case SField:
		base := fc.spec(x.X, env)
		return fc.specField(base, x.F)
	case SIndex:
		// f(x)[k] with f a slice-valued callback: abstract content
		if c, ok := x.X.(SCall); ok {
			if fv := fc.specFuncVal(c.Fn, env); fv != nil && fv.Kind == "param" && fv.Sig.Results().Len() == 1 {
				if rs := fc.sortOf(fv.Sig.Results().At(0).Type()); rs.Kind == KSlice {
					var args []Term
					for _, a := range c.Args {
						args = append(args, fc.spec(a, env))
					}
					return fc.cbAt(fv, args, fc.spec(x.I, env), rs.Elem)
				}
			}
		}
		base := fc.spec(x.X, env)
		idx := fc.spec(x.I, env)
		return fc.specIndex(base, idx, env)
	case SSliceE:
		base := fc.spec(x.X, env)
		var lo, hi Term
		lo = IntLit(0)
		if x.Lo != nil {
			lo = fc.spec(x.Lo, env)
		}
		switch base.Sort.Kind {
		case KString:
			if x.Hi != nil {
				hi = fc.spec(x.Hi, env)
			} else {
				hi = App(SInt, "str.len", base)
			}
			return App(SString, "str.substr", base, lo, Sub(hi, lo))
		}
		return fc.specFail("slice expression in spec on " + base.Sort.String())
	case SCall:
		return fc.specCall(x, env)
	}
	return fc.specFail(fmt.Sprintf("spec node %T", e))
}

func (fc *FuncCtx) pkgIdent(name string, env *SpecEnv) (Term, bool) {
	pkgs := []*types.Package{fc.Pkg.Types}
	if env.calleeCon != nil {
		if i := strings.Index(env.calleeCon.Key, "."); i >= 0 {
			if p := fc.E.ByName[env.calleeCon.Key[:i]]; p != nil {
				pkgs = append([]*types.Package{p.Types}, pkgs...)
			}
		}
	}
	for _, p := range pkgs {
		if o, ok := p.Scope().Lookup(name).(*types.Var); ok {
			return fc.pkgVar(o, env.st), true
		}
		if o, ok := p.Scope().Lookup(name).(*types.Const); ok {
			if t, ok := fc.constTerm(o.Val(), o.Type(), env.st); ok {
				return t, true
			}
		}
	}
	return Term{}, false
}

func (fc *FuncCtx) specField(base Term, f string) Term {
	if base.Sort.Kind == KSlice {
		switch f {
		case "arr":
			return SlArr(base)
		case "off":
			return SlOff(base)
		case "len":
			return SlLen(base)
		case "cap":
			return SlCap(base)
		}
	}
	if base.Sort.Kind == KSeq {
		// value mode: the header fields of a slice are not observable; a value-mode slice behaves like a
		// non-nil header with offset 0 and cap == len
		switch f {
		case "arr":
			return IntLit(1)
		case "off":
			return IntLit(0)
		case "len", "cap":
			return seqLen(base)
		}
	}
	if base.Sort.Kind == KData {
		d := fc.Sorts.dts[base.Sort.Name]
		if d != nil {
			for _, ct := range d.Ctors {
				for _, fl := range ct.Fields {
					if fl.Name == ct.Name+"_"+f || (!d.IsUnion && fl.Name == d.Name+"_"+f) {
						return App(fl.Sort, fl.Name, base)
					}
				}
			}
		}
	}
	return fc.specFail("unknown field " + f + " on " + base.Sort.String())
}

func (fc *FuncCtx) specIndex(base, idx Term, env *SpecEnv) Term {
	switch base.Sort.Kind {
	case KSlice:
		h := fc.heapOf(env.st, base.Sort.Elem)
		return Select(Select(h, SlArr(base)), Add(SlOff(base), idx))
	case KSeq:
		return seqAt(base, idx)
	case KArray:
		return Select(base, idx)
	case KString:
		return App(SInt, "str.to_code", App(SString, "str.at", base, idx))
	case KBStr:
		return Select(BsArr(base), idx)
	case KMap:
		val := fc.mapVal(env.st, base.Sort.Key, base.Sort.Elem)
		return Select(Select(val, base), idx)
	}
	return fc.specFail("index on " + base.Sort.String())
}

func (fc *FuncCtx) specLen(v Term) Term {
	switch v.Sort.Kind {
	case KSlice:
		return SlLen(v)
	case KSeq:
		return seqLen(v)
	case KString:
		return App(SInt, "str.len", v)
	case KBStr:
		return BsLen(v)
	}
	return fc.specFail("len on " + v.Sort.String())
}

func (fc *FuncCtx) specBin(x SBin, env *SpecEnv) Term {
	l := fc.spec(x.L, env)
	r := fc.spec(x.R, env)
	switch x.Op {
	case "&&":
		return And(l, r)
	case "||":
		return Or(l, r)
	case "==>":
		return Implies(l, r)
	case "<==>":
		return Eq(l, r)
	case "==":
		return fc.equal(l, r)
	case "!=":
		return Not(fc.equal(l, r))
	case "<":
		return Lt(l, r)
	case "<=":
		return Le(l, r)
	case ">":
		return Lt(r, l)
	case ">=":
		return Le(r, l)
	case "+":
		if l.Sort.Kind == KString {
			return App(SString, "str.++", l, r)
		}
		return Add(l, r)
	case "-":
		return Sub(l, r)
	case "*":
		return App(SInt, "*", l, r)
	case "/":
		return App(SInt, "div", l, r)
	case "%":
		return App(SInt, "mod", l, r)
	}
	return fc.specFail("operator " + x.Op)
}

// specFuncVal resolves a name used in call position in a spec to a function value, if it is one.
func (fc *FuncCtx) specFuncVal(name string, env *SpecEnv) *FuncVal {
	if t, ok := env.bound[name]; ok && t.Fn != nil {
		return t.Fn
	}
	if env.calleeCon == nil {
		if t, ok := fc.lookupVar(env.st, name); ok && t.Fn != nil {
			return t.Fn
		}
		if t, ok := fc.lookupVar(fc.entry, name); ok && t.Fn != nil {
			return t.Fn
		}
	}
	return nil
}

func (fc *FuncCtx) specCall(x SCall, env *SpecEnv) Term {
	arg := func(i int) Term { return fc.spec(x.Args[i], env) }
	switch x.Fn {
	case "old":
		n := *env
		if n.cur == nil {
			n.cur = env.st
		}
		n.st = env.old
		return fc.spec(x.Args[0], &n)
	case "len":
		// len(f(x)) for slice-valued callbacks
		if c, ok := x.Args[0].(SCall); ok {
			if fv := fc.specFuncVal(c.Fn, env); fv != nil && fv.Kind == "param" && fv.Sig.Results().Len() == 1 {
				if rs := fc.sortOf(fv.Sig.Results().At(0).Type()); rs.Kind == KSlice {
					var args []Term
					for _, a := range c.Args {
						args = append(args, fc.spec(a, env))
					}
					return fc.cbLen(fv, args)
				}
			}
		}
		return fc.specLen(arg(0))
	case "cap":
		v := arg(0)
		if v.Sort.Kind == KSlice {
			return SlCap(v)
		}
		if v.Sort.Kind == KSeq {
			return seqLen(v)
		}
		return fc.specFail("cap on " + v.Sort.String())
	case "ite":
		return Ite(arg(0), arg(1), arg(2))
	case "has":
		m := arg(0)
		if m.Sort.Kind == KMap {
			dom := fc.mapDom(env.st, m.Sort.Key, m.Sort.Elem)
			return Select(Select(dom, m), arg(1))
		}
		if m.Sort.Kind == KArray && m.Sort.Elem.Kind == KBool {
			return Select(m, arg(1))
		}
		return fc.specFail("has on " + m.Sort.String())
	case "visited":
		if g, ok := env.st.ghost["visited"]; ok {
			return Select(g, arg(0))
		}
		return fc.specFail("visited outside a map range loop")
	case "fresh":
		if fc.SliceMode != "heap" {
			return True
		}
		v := arg(0)
		return Or(Eq(SlCap(v), IntLit(0)), Select(env.st.mine, SlArr(v)))
	case "owned":
		if fc.SliceMode != "heap" {
			return True
		}
		v := arg(0)
		return Or(Eq(SlLen(v), IntLit(0)), Select(env.st.mine, SlArr(v)))
	case "frame":
		return fc.frameTerm(env)
	case "unchanged_except":
		// unchanged_except(x): every cell outside x's window is unchanged since old
		return fc.frameExceptTerm(env, arg(0))
	case "valid":
		v := arg(0)
		z := IntLit(0)
		return And(Le(z, SlArr(v)), Lt(SlArr(v), env.st.next), Le(z, SlOff(v)), Le(z, SlLen(v)), Le(SlLen(v), SlCap(v)), Implies(Eq(SlArr(v), z), Eq(SlCap(v), z)))
	case "calls":
		fv := fc.specFuncVal(x.Args[0].(SIdent).Name, env)
		if fv == nil || (fv.Kind != "param" && fv.Kind != "wrap") {
			return fc.specFail("calls() needs a callback parameter")
		}
		if n, ok := env.st.trn[fv.Name]; ok {
			return n
		}
		return fc.entryTrn(fv.Name)
	case "arg", "arg0", "arg1", "arg2":
		fv := fc.specFuncVal(x.Args[0].(SIdent).Name, env)
		if fv == nil || (fv.Kind != "param" && fv.Kind != "wrap") {
			return fc.specFail("arg() needs a callback parameter")
		}
		pi := 0
		switch x.Fn {
		case "arg1":
			pi = 1
		case "arg2":
			pi = 2
		}
		arrs := env.st.tra[fv.Name]
		if arrs == nil {
			arrs = fc.entryTra(fv)
		}
		if pi >= len(arrs) {
			return fc.specFail("callback has no such parameter")
		}
		return Select(arrs[pi], arg(1))
	case "buf":
		// content of a *bytes.Buffer reference
		h := fc.bufHeap(env.st)
		return Select(h, arg(0))
	case "glob":
		name := x.Args[0].(SIdent).Name
		if ty, ok := fc.E.CS.Globals[name]; ok {
			return fc.globOf(env.st, name, fc.sortOfSType(ty, nil))
		}
		return fc.specFail("unknown global state component " + name)
	case "mapsframe":
		return fc.mapsFrame(env, nil)
	case "pkgvar":
		// pkgvar(name): the package-level variable `name` of the verified function's package (as the code reads it)
		if len(x.Args) == 1 {
			if id, ok := x.Args[0].(SIdent); ok && fc.Pkg != nil && fc.Pkg.Types != nil {
				if o, ok := fc.Pkg.Types.Scope().Lookup(id.Name).(*types.Var); ok {
					return fc.pkgVar(o, env.st)
				}
			}
		}
		return fc.specFail("pkgvar(NAME): unknown package-level variable")
	case "mapsframe_except":
		m := arg(0)
		return fc.mapsFrame(env, &m)
	case "bufsframe_except":
		b := arg(0)
		h := fc.bufHeap(env.st)
		h0 := fc.bufHeap(env.old)
		return T(fmt.Sprintf("(forall ((r Int)) (! (=> (and (< r %s) (not (= r %s))) (= (select %s r) (select %s r))) :pattern ((select %s r))))", env.old.next.S, b.S, h.S, h0.S, h.S), SBool)
	case "bufsframe":
		h := fc.bufHeap(env.st)
		h0 := fc.bufHeap(env.old)
		if h.S == h0.S {
			return True
		}
		return T(fmt.Sprintf("(forall ((r Int)) (! (=> (< r %s) (= (select %s r) (select %s r))) :pattern ((select %s r))))", env.old.next.S, h.S, h0.S, h.S), SBool)
	case "box":
		return fc.boxAny(arg(0))
	case "domof":
		m := arg(0)
		if m.Sort.Kind != KMap {
			return fc.specFail("domof needs a map")
		}
		return Select(fc.mapDom(env.st, m.Sort.Key, m.Sort.Elem), m)
	case "valof":
		m := arg(0)
		if m.Sort.Kind != KMap {
			return fc.specFail("valof needs a map")
		}
		return Select(fc.mapVal(env.st, m.Sort.Key, m.Sort.Elem), m)
	case "fmtverb":
		v := x.Args[0].(SStr).V
		return fc.fmtVerb(v[0], arg(1))
	case "sprintf":
		var ts []Term
		for i := range x.Args {
			// optional (variadic) actuals o1..o6 of an extern that were not supplied are skipped
			if id, ok := x.Args[i].(SIdent); ok && len(id.Name) == 2 && id.Name[0] == 'o' && id.Name[1] >= '1' && id.Name[1] <= '6' {
				if _, bound := env.bound[id.Name]; !bound {
					continue
				}
			}
			ts = append(ts, arg(i))
		}
		if f, ok := smtStrLitValue(ts[0].S); ok {
			return fc.sprintfConst(f, ts[1:])
		}
		return fc.sprintfUninterp(ts[0], ts[1:])
	case "bytes2str":
		v := arg(0)
		fn := "bytes_to_string_" + mangle(v.Sort.SMT())
		fc.declareFun(fn, []*Sort{v.Sort}, fc.strSort())
		return App(fc.strSort(), fn, v)
	case "str2bytes":
		v := arg(0)
		so := fc.Sorts.declSeq(SInt)
		if fc.SliceMode == "heap" {
			so = SliceOf(SInt)
		}
		fc.declareFun("string_to_bytes", []*Sort{v.Sort}, so)
		return App(so, "string_to_bytes", v)
	case "optpassed":
		// optpassed(t): one of the optional (variadic) actuals o1..o6 of an extern call equals t
		t := arg(0)
		var ds []Term
		for _, n := range []string{"o1", "o2", "o3", "o4", "o5", "o6"} {
			if a, ok := env.bound[n]; ok && a.Sort.SMT() == t.Sort.SMT() {
				ds = append(ds, Eq(a, t))
			}
		}
		return Or(ds...)
	case "zero":
		// zero(x): the zero value of x's sort
		return fc.zeroOfSort(arg(0).Sort, nil)
	// SMT string theory
	case "substr":
		return App(SString, "str.substr", arg(0), arg(1), arg(2))
	case "indexof":
		return App(SInt, "str.indexof", arg(0), arg(1), arg(2))
	case "contains":
		return App(SBool, "str.contains", arg(0), arg(1))
	case "prefixof":
		return App(SBool, "str.prefixof", arg(0), arg(1))
	case "suffixof":
		return App(SBool, "str.suffixof", arg(0), arg(1))
	case "strat":
		return App(SString, "str.at", arg(0), arg(1))
	case "from_code":
		return App(SString, "str.from_code", arg(0))
	case "to_code":
		return App(SInt, "str.to_code", arg(0))
	case "from_int":
		return App(SString, "str.from_int", arg(0))
	case "replace":
		return App(SString, "str.replace", arg(0), arg(1), arg(2))
	case "is":
		// is(CtorName, x)
		cn := x.Args[0].(SIdent).Name
		return T("((_ is "+cn+") "+arg(1).S+")", SBool)
	case "bstr":
		// bstr(arr, len): build a byte string from a ghost array
		return MkBStr(arg(0), arg(1))
	case "store":
		return Store(arg(0), arg(1), arg(2))
	case "lt":
		return fc.ltTerm(arg(0), arg(1))
	}
	// function value bound in the environment (callback / closure / named function)
	if fv := fc.specFuncVal(x.Fn, env); fv != nil {
		var args []Term
		for i := range x.Args {
			args = append(args, arg(i))
		}
		return fc.applyFuncValPure(fv, args, env)
	}
	if sf, ok := fc.E.CS.SpecFuns[x.Fn]; ok {
		var args []Term
		for i := range x.Args {
			args = append(args, arg(i))
		}
		return fc.applySpecFun(sf, args, env)
	}
	// datatype selector by its full name, e.g. FType_FUnion_Value(x)
	if len(x.Args) == 1 {
		for _, dn := range fc.Sorts.dtOrder {
			d := fc.Sorts.dts[dn]
			for _, ct := range d.Ctors {
				for _, fl := range ct.Fields {
					if fl.Name == x.Fn {
						return App(fl.Sort, fl.Name, arg(0))
					}
				}
			}
		}
	}
	// a struct constructor mk_<pkg>_<Type> of a type this function has not touched yet: declare its datatype
	if strings.HasPrefix(x.Fn, "mk_") {
		rest := strings.TrimPrefix(x.Fn, "mk_")
		if i := strings.Index(rest, "_"); i > 0 {
			if p := fc.E.ByName[rest[:i]]; p != nil && p.Types != nil {
				if obj := p.Types.Scope().Lookup(rest[i+1:]); obj != nil {
					if tn, ok := obj.(*types.TypeName); ok {
						if n, ok := tn.Type().(*types.Named); ok && n.TypeParams() == nil {
							func() {
								defer func() { recover() }()
								fc.sortOf(tn.Type())
							}()
						}
					}
				}
			}
		}
	}
	// datatype constructor: mk_Name(...) or CaseName(...)
	for _, dn := range fc.Sorts.dtOrder {
		d := fc.Sorts.dts[dn]
		for _, ct := range d.Ctors {
			if ct.Name == x.Fn && len(ct.Fields) == len(x.Args) {
				var args []Term
				for i := range x.Args {
					args = append(args, arg(i))
				}
				if len(args) == 0 {
					return T(ct.Name, DataSort(dn))
				}
				return App(DataSort(dn), ct.Name, args...)
			}
		}
	}
	// a declared function with a functional contract (returns E), usable in specs
	key := x.Fn
	if !strings.Contains(key, ".") {
		key = fc.Pkg.Name + "." + key
		if env.calleeCon != nil {
			if i := strings.Index(env.calleeCon.Key, "."); i >= 0 {
				key = env.calleeCon.Key[:i] + "." + x.Fn
			}
		}
	}
	if con, ok := fc.E.CS.Funcs[key]; ok && con.Returns != nil {
		ref := fc.E.FuncDecl[key]
		n := fc.newEnv(env.st)
		n.old = env.old
		n.calleeCon = con
		var names []string
		if con.Extern {
			names = con.ParamNames
		} else if ref != nil {
			for _, id := range formalObjs(ref) {
				if id != nil {
					names = append(names, id.Name)
				} else {
					names = append(names, "_")
				}
			}
		}
		for i, nm := range names {
			if i < len(x.Args) {
				n.bound[nm] = arg(i)
			}
		}
		if con.Trusted {
			fc.Assumed["assumed contract of "+con.Key] = true
		} else {
			fc.Deps[con.Key] = true
		}
		return fc.spec(con.Returns, n)
	}
	return fc.specFail("unknown function " + x.Fn + " in spec")
}

// applyFuncValPure: the value of applying a function value inside a spec (no effects).
func (fc *FuncCtx) applyFuncValPure(fv *FuncVal, args []Term, env *SpecEnv) Term {
	switch fv.Kind {
	case "param":
		return fc.pureApp(fv, args)
	case "wrap":
		return fc.applyFuncValPure(fv.Inner, args, env)
	case "named":
		con := fc.E.CS.Funcs[fv.Name]
		if con != nil && con.Returns != nil {
			n := fc.newEnv(env.st)
			n.old = env.old
			n.calleeCon = con
			var names []string
			if con.Extern {
				names = con.ParamNames
			} else if fv.Ref != nil {
				for _, id := range formalObjs(fv.Ref) {
					if id != nil {
						names = append(names, id.Name)
					} else {
						names = append(names, "_")
					}
				}
			}
			for i, nm := range names {
				if i < len(args) {
					n.bound[nm] = args[i]
				}
			}
			if con.Trusted {
				fc.Assumed["assumed contract of "+con.Key] = true
			} else {
				fc.Deps[con.Key] = true
			}
			return fc.spec(con.Returns, n)
		}
		return fc.specFail("function " + fv.Name + " has no functional (returns) contract; cannot be used in a spec")
	case "lit":
		// pure evaluation of a literal whose body is a single return
		if len(fv.Lit.Body.List) == 1 {
			if rs, ok := fv.Lit.Body.List[0].(*ast.ReturnStmt); ok && len(rs.Results) == 1 {
				work := env.st.clone()
				for k, v := range fv.Env.vars {
					if _, ok := work.vars[k]; !ok {
						work.vars[k] = v
					}
				}
				i := 0
				for _, f := range fv.Lit.Type.Params.List {
					for _, nm := range f.Names {
						if obj := fv.Info.Defs[nm]; obj != nil && i < len(args) {
							work.vars[obj] = args[i]
						}
						i++
					}
				}
				fc.infoStack = append(fc.infoStack, fv.Info)
				fc.pureDepth++
				nobl := len(fc.Obls)
				r := fc.evalPure(rs.Results[0], work)
				fc.Obls = fc.Obls[:nobl] // checks inside a spec-level application are not obligations
				fc.pureDepth--
				fc.infoStack = fc.infoStack[:len(fc.infoStack)-1]
				return r
			}
		}
		return fc.specFail("function literal is not a single return expression; cannot be used in a spec")
	}
	return fc.specFail("function value kind " + fv.Kind)
}

// evalPure evaluates a Go expression as a pure term (used for comparator / projection literals in
// specs).  Calls inside go through functional contracts only.
func (fc *FuncCtx) evalPure(e ast.Expr, st *St) Term {
	switch x := ast.Unparen(e).(type) {
	case *ast.CallExpr:
		var args []Term
		for _, a := range x.Args {
			args = append(args, fc.evalPure(a, st))
		}
		if fn := fc.calleeFunc(x); fn != nil {
			key := funcKey(fn)
			var ref *FuncRef
			if fn.Pkg() != nil && fc.E.Pkgs[fn.Pkg().Path()] == nil {
				key = "ext:" + fn.Pkg().Path() + "." + strings.TrimPrefix(key, fn.Pkg().Name()+".")
			} else {
				ref = fc.E.FuncDecl[key]
			}
			fv := &FuncVal{Kind: "named", Name: key, Ref: ref}
			env := fc.newEnv(st)
			env.tparams = fc.tsubstFor(x, fn)
			con := fc.E.CS.Funcs[key]
			if con != nil && con.Returns != nil {
				n := fc.newEnv(st)
				n.calleeCon = con
				n.tparams = env.tparams
				var names []string
				if con.Extern {
					names = con.ParamNames
				} else if ref != nil {
					for _, id := range formalObjs(ref) {
						if id != nil {
							names = append(names, id.Name)
						} else {
							names = append(names, "_")
						}
					}
				}
				for i, nm := range names {
					if i < len(args) {
						n.bound[nm] = args[i]
					}
				}
				if con.Trusted {
					fc.Assumed["assumed contract of "+con.Key] = true
				} else {
					fc.Deps[con.Key] = true
				}
				return fc.spec(con.Returns, n)
			}
			_ = fv
			if ref != nil && ref.Decl.Body != nil && len(ref.Decl.Body.List) == 1 && fc.pureDepth < 12 {
				if rs, ok := ref.Decl.Body.List[0].(*ast.ReturnStmt); ok && len(rs.Results) == 1 {
					// the callee's body is a single return expression: evaluate it (real code, inlined)
					work := st.clone()
					for i, id := range formalObjs(ref) {
						if id == nil || i >= len(args) {
							continue
						}
						if obj := ref.Pkg.TypesInfo.Defs[id]; obj != nil {
							work.vars[obj] = args[i]
						}
					}
					saveTs := fc.tsubst
					if ts := fc.tsubstFor(x, fn); ts != nil {
						fc.tsubst = ts
					}
					fc.infoStack = append(fc.infoStack, ref.Pkg.TypesInfo)
					fc.pureDepth++
					r := fc.evalPure(rs.Results[0], work)
					fc.pureDepth--
					fc.infoStack = fc.infoStack[:len(fc.infoStack)-1]
					fc.tsubst = saveTs
					return r
				}
			}
			return fc.specFail("call of " + key + " inside a spec-level function literal needs a functional contract")
		}
		f := fc.eval(x.Fun, st)
		if f.Fn != nil {
			return fc.applyFuncValPure(f.Fn, args, fc.newEnv(st))
		}
		return fc.specFail("call of unknown function value in spec-level literal")
	}
	return fc.eval(e, st)
}

func (fc *FuncCtx) applySpecFun(sf *SpecFun, args []Term, env *SpecEnv) Term {
	fc.declareSpecFun(sf, env)
	rs := fc.sortOfSType(sf.Ret, nil)
	for i := range args {
		if i < len(sf.Params) {
			args[i] = fc.coerceSort(args[i], fc.sortOfSType(sf.Params[i].Type, nil))
		}
	}
	if len(args) == 0 {
		return T(sf.Name, rs)
	}
	return App(rs, sf.Name, args...)
}

// declareSpecFun emits the declaration (and definition) of a spec function on first use.
func (fc *FuncCtx) declareSpecFun(sf *SpecFun, env *SpecEnv) {
	if fc.declSet["specfun:"+sf.Name] {
		return
	}
	fc.declSet["specfun:"+sf.Name] = true
	fc.usedSpec[sf.Name] = true
	var ps []string
	var psorts []*Sort
	benv := &SpecEnv{st: fc.entry, old: fc.entry, bound: map[string]Term{}, havocGlob: map[string]bool{}}
	for _, p := range sf.Params {
		so := fc.sortOfSType(p.Type, nil)
		ps = append(ps, "("+p.Name+"_p "+so.SMT()+")")
		psorts = append(psorts, so)
		benv.bound[p.Name] = T(p.Name+"_p", so)
	}
	rs := fc.sortOfSType(sf.Ret, nil)
	if sf.Body == nil {
		if len(ps) == 0 {
			fc.decls = append(fc.decls, fmt.Sprintf("(declare-const %s %s)", sf.Name, rs.SMT()))
		} else {
			var as []string
			for _, s := range psorts {
				as = append(as, s.SMT())
			}
			fc.decls = append(fc.decls, fmt.Sprintf("(declare-fun %s (%s) %s)", sf.Name, strings.Join(as, " "), rs.SMT()))
		}
	} else {
		// body may use other spec functions: they get declared first (placeholder trick: translate body first)
		idx := len(fc.decls)
		fc.decls = append(fc.decls, "")
		body := fc.spec(sf.Body, benv)
		kw := "define-fun"
		if sf.Rec {
			kw = "define-fun-rec"
		}
		def := fmt.Sprintf("(%s %s (%s) %s %s)", kw, sf.Name, strings.Join(ps, " "), rs.SMT(), body.S)
		// move the definition after everything the body declared
		fc.decls = append(fc.decls[:idx], fc.decls[idx+1:]...)
		fc.decls = append(fc.decls, def)
	}
	// axioms that mention this function are emitted once all their functions are declared: done lazily in axiomsFor
	fc.pendingAxioms = true
}

// emitAxioms adds every axiom whose owner is in use.  The owner of an axiom is the first spec function
// it mentions (left to right): axioms are written "f(...) == ..." / "forall .. :: f(...) ...", so an
// axiom defines its owner; the other functions it mentions are declared on demand (to a fixpoint).
func (fc *FuncCtx) emitAxioms() {
	for fc.pendingAxioms {
		fc.pendingAxioms = false
		for _, ax := range fc.E.CS.Axioms {
			if fc.declSet["axiom:"+ax.Name] {
				continue
			}
			owner := ax.Owner
			if owner == "" {
				owner = firstSpecFun(ax.Expr, fc.E.CS)
			}
			if owner == "" || !fc.usedSpec[owner] {
				continue
			}
			fc.declSet["axiom:"+ax.Name] = true
			env := &SpecEnv{st: fc.entry, old: fc.entry, bound: map[string]Term{}, havocGlob: map[string]bool{}}
			t := fc.spec(ax.Expr, env)
			fc.decls = append(fc.decls, "(assert "+t.S+") ; axiom "+ax.Name)
			fc.Assumed["spec axiom "+ax.Name+": "+ax.Src] = true
		}
	}
}

func firstSpecFun(e SExpr, cs *ContractSet) string {
	res := ""
	var walk func(e SExpr)
	walk = func(e SExpr) {
		if res != "" {
			return
		}
		switch x := e.(type) {
		case SIdent:
			if sf, ok := cs.SpecFuns[x.Name]; ok && len(sf.Params) == 0 {
				res = x.Name
			}
		case SBin:
			walk(x.L)
			walk(x.R)
		case SUn:
			walk(x.X)
		case SCall:
			if _, ok := cs.SpecFuns[x.Fn]; ok {
				res = x.Fn
				return
			}
			for _, a := range x.Args {
				walk(a)
			}
		case SIndex:
			walk(x.X)
			walk(x.I)
		case SSliceE:
			walk(x.X)
		case SField:
			walk(x.X)
		case SQuant:
			walk(x.Body)
		}
	}
	walk(e)
	return res
}

// specMentions: does the expression mention one of the names (as an identifier or as the function of a call)?
func specMentions(e SExpr, names map[string]bool) bool {
	found := false
	var walk func(e SExpr)
	walk = func(e SExpr) {
		if found || e == nil {
			return
		}
		switch x := e.(type) {
		case SIdent:
			if names[x.Name] {
				found = true
			}
		case SBin:
			walk(x.L)
			walk(x.R)
		case SUn:
			walk(x.X)
		case SCall:
			if names[x.Fn] {
				found = true
			}
			for _, a := range x.Args {
				walk(a)
			}
		case SIndex:
			walk(x.X)
			walk(x.I)
		case SSliceE:
			walk(x.X)
			if x.Lo != nil {
				walk(x.Lo)
			}
			if x.Hi != nil {
				walk(x.Hi)
			}
		case SField:
			walk(x.X)
		case SQuant:
			walk(x.Body)
			for _, tr := range x.Triggers {
				for _, t := range tr {
					walk(t)
				}
			}
		}
	}
	walk(e)
	return found
}

func specFunsIn(e SExpr, cs *ContractSet) []string {
	set := map[string]bool{}
	var walk func(e SExpr)
	walk = func(e SExpr) {
		switch x := e.(type) {
		case SIdent:
			if sf, ok := cs.SpecFuns[x.Name]; ok && len(sf.Params) == 0 {
				set[x.Name] = true
			}
		case SBin:
			walk(x.L)
			walk(x.R)
		case SUn:
			walk(x.X)
		case SCall:
			if _, ok := cs.SpecFuns[x.Fn]; ok {
				set[x.Fn] = true
			}
			for _, a := range x.Args {
				walk(a)
			}
		case SIndex:
			walk(x.X)
			walk(x.I)
		case SSliceE:
			walk(x.X)
			if x.Lo != nil {
				walk(x.Lo)
			}
			if x.Hi != nil {
				walk(x.Hi)
			}
		case SField:
			walk(x.X)
		case SQuant:
			walk(x.Body)
		}
	}
	walk(e)
	var res []string
	for k := range set {
		res = append(res, k)
	}
	return res
}

// frameTerm: no cell of any array that existed at function entry has changed (C12 strong frame).
func (fc *FuncCtx) frameTerm(env *SpecEnv) Term {
	if fc.SliceMode != "heap" {
		return True
	}
	var cs []Term
	old := env.old
	for _, es := range fc.heapElems {
		h := fc.heapOf(env.st, es)
		h0 := fc.heapOf(old, es)
		if h.S == h0.S {
			continue
		}
		cs = append(cs, T(fmt.Sprintf("(forall ((r Int)) (! (=> (< r %s) (= (select %s r) (select %s r))) :pattern ((select %s r))))", old.next.S, h.S, h0.S, h.S), SBool))
	}
	return And(cs...)
}

func (fc *FuncCtx) frameExceptTerm(env *SpecEnv, x Term) Term {
	if fc.SliceMode != "heap" {
		return True
	}
	var cs []Term
	old := env.old
	for _, es := range fc.heapElems {
		h := fc.heapOf(env.st, es)
		h0 := fc.heapOf(old, es)
		if h.S == h0.S {
			continue
		}
		if es.SMT() == x.Sort.Elem.SMT() {
			cs = append(cs, T(fmt.Sprintf("(forall ((r Int) (j Int)) (! (=> (not (and (= r %s) (<= %s j) (< j (+ %s %s)))) (= (select (select %s r) j) (select (select %s r) j))) :pattern ((select (select %s r) j))))",
				SlArr(x).S, SlOff(x).S, SlOff(x).S, SlLen(x).S, h.S, h0.S, h.S), SBool))
		} else {
			cs = append(cs, Eq(h, h0))
		}
	}
	return And(cs...)
}

// ltTerm: the strict total order of a cmp.Ordered type (ints: <, strings: lexicographic, type
// parameters: an uninterpreted strict total order).
func (fc *FuncCtx) ltTerm(a, b Term) Term {
	switch a.Sort.Kind {
	case KInt:
		return Lt(a, b)
	case KString:
		return App(SBool, "str.<", a, b)
	}
	n := "lt_" + mangle(a.Sort.SMT())
	if !fc.declSet[n] {
		fc.declareFun(n, []*Sort{a.Sort, a.Sort}, SBool)
		s := a.Sort.SMT()
		fc.addAxiom(fmt.Sprintf("(forall ((x %s)) (! (not (%s x x)) :pattern ((%s x x))))", s, n, n))
		fc.addAxiom(fmt.Sprintf("(forall ((x %s) (y %s) (z %s)) (! (=> (and (%s x y) (%s y z)) (%s x z)) :pattern ((%s x y) (%s y z))))", s, s, s, n, n, n, n, n))
		fc.addAxiom(fmt.Sprintf("(forall ((x %s) (y %s)) (! (or (%s x y) (%s y x) (= x y)) :pattern ((%s x y))))", s, s, n, n, n))
		fc.Assumed["cmp.Ordered type parameter: < is a strict total order (floats with NaN excluded)"] = true
	}
	return App(SBool, n, a, b)
}

// mapsFrame: every map that existed at old is unchanged (except the one given).
func (fc *FuncCtx) mapsFrame(env *SpecEnv, except *Term) Term {
	var cs []Term
	var ks []string
	for k := range env.st.mdom {
		ks = append(ks, k)
	}
	sortStrings(ks)
	for _, k := range ks {
		d := env.st.mdom[k]
		ex := ""
		if except != nil && mkey(except.Sort.Key, except.Sort.Elem) == k {
			ex = fmt.Sprintf(" (not (= r %s))", except.S)
		}
		// domain frame: the entry constant of a lazily created component is <prefix><key>
		d0, ok := env.old.mdom[k]
		if !ok {
			name := "mdom0_" + mangle(k)
			fc.declare(name, d.Sort)
			d0 = T(name, d.Sort)
			env.old.mdom[k] = d0
		}
		if d.S != d0.S {
			cs = append(cs, T(fmt.Sprintf("(forall ((r Int)) (! (=> (and (< r %s)%s) (= (select %s r) (select %s r))) :pattern ((select %s r))))", env.old.next.S, ex, d.S, d0.S, d.S), SBool))
		}
		v, okv := env.st.mval[k]
		v0, okv0 := env.old.mval[k]
		if !okv && !okv0 {
			continue
		}
		if !okv0 {
			name := "mval0_" + mangle(k)
			fc.declare(name, v.Sort)
			v0 = T(name, v.Sort)
			env.old.mval[k] = v0
		}
		if !okv {
			v = v0
			env.st.mval[k] = v0
		}
		if v.S != v0.S {
			cs = append(cs, T(fmt.Sprintf("(forall ((r Int)) (! (=> (and (< r %s)%s) (= (select %s r) (select %s r))) :pattern ((select %s r))))", env.old.next.S, ex, v.S, v0.S, v.S), SBool))
		}
	}
	return And(cs...)
}
