package fovc

import (
	"bufio"
	"fmt"
	"os"
	"regexp"
	"strconv"
	"strings"
)

// Contract syntax: DESIGN §2.4.  Contracts are kept as //@ comment lines in
// comment-only files (/repo/<pkg>/contracts_verif.go, build tag verif) and in
// /verif/specs/*.spec (assumed contracts of code outside /repo, spec functions, axioms).

type Clause struct {
	Name    string
	Props   []string // empty = all props of the function
	Expr    SExpr
	Src     string
	Line    int
	Assumed bool // ensures-assumed: used by callers, not proved
}

type GhostDecl struct {
	Name string
	Type *SType
	Init SExpr // optional
}

type GhostAt struct {
	Before bool
	Kind   string // "call" | "loop-end" | "return"
	Callee string
	Ord    int
	LHS    SExpr
	RHS    SExpr
	Src    string
	Pass   bool // "pass g = e": supplies the ghost parameter g of the callee at this call
}

type LoopSpec struct {
	Ord       int
	Index     string
	Invs      []Clause
	Decreases SExpr
	DecSrc    string
}

type Contract struct {
	Key         string
	ParamNames  []string // extern only
	Props       []string
	Inline      bool
	InlineCalls bool // verified on its own AND β-reduced at call sites (tiny higher-order combinators)
	Trusted     bool
	Pure        bool
	Terminates  bool
	Decreases   SExpr // function-level variant: checked at every call of a function of the same recursion group
	RecGroup    string
	DecSrc      string
	Extern      bool
	Mode        map[string]string
	Ghosts      []GhostDecl
	GhostIns    []GhostDecl // ghost parameters: supplied by the caller (pass), universally quantified in the callee
	Requires    []Clause
	GhostAssume []Clause
	OnPanic     []Clause // must hold whenever the function terminates abnormally (panic / exit)
	Ensures     []Clause
	Returns     SExpr
	ReturnsSrc  string
	ReturnsDef  bool   // the returns clause NAMES the result of a pure deterministic function (definitional: assumed, not proved)
	Panics      string // "", "never", "may", "iff"
	PanicsCond  SExpr
	PanicsSrc   string
	Loops       map[int]*LoopSpec
	CallLoops   map[string]*LoopSpec // "callee#k/n": loop n of the callee inlined at the k-th call of callee
	InlineAt    map[string]bool      // "callee#k": inline the callee's body at this call site
	GhostAts    []GhostAt
	ParamSpecs  map[string]string
	Modifies    []string
	Notes       []string
	File        string
	Line        int
}

type SpecFun struct {
	Name   string
	Params []SVar
	Ret    *SType
	Body   SExpr // nil = uninterpreted
	Src    string
	Rec    bool
}

type Axiom struct {
	Name  string
	Expr  SExpr
	Src   string
	File  string
	Owner string // explicit owner (specification function whose use triggers emission); "" = first one mentioned
}

type ContractSet struct {
	GhostGlobals map[string]bool
	Funcs        map[string]*Contract
	SpecFuns     map[string]*SpecFun
	SpecOrd      []string
	Axioms       []*Axiom
	RawSMT       []string
	PkgMode      map[string]map[string]string // pkg name -> mode settings
	Globals      map[string]*SType            // abstract global state components (stdout, fs, ...)
	GlobOrd      []string
}

func NewContractSet() *ContractSet {
	return &ContractSet{Funcs: map[string]*Contract{}, SpecFuns: map[string]*SpecFun{}, PkgMode: map[string]map[string]string{}, Globals: map[string]*SType{}}
}

var reCallLoop = regexp.MustCompile(`^loop\s+([\w.]+(?:#\d+)?)/(\d+)(?:\s+index\s+(\w+))?\s*:?$`)
var reLoop = regexp.MustCompile(`^loop\s+(\d+)(?:\s+index\s+(\w+))?\s*:?$`)
var reAtBody = regexp.MustCompile(`^at\s+(body|endbody)\s+loop\s+(\d+)\s*:\s*(.*)$`)
var reAt = regexp.MustCompile(`^at\s+(before|after)\s+call\s+([\w.]+)#(\d+)\s*:\s*(pass\s+)?(.*)$`)
var reNamed = regexp.MustCompile(`^([A-Za-z_][\w.\-#]*)\s*:\s*(.*)$`)
var reProp = regexp.MustCompile(`^C\d{2,3}$`)

func splitPropsName(rest string) (props []string, name string, expr string, err error) {
	// [Cxx[,Cyy]] name: expr
	fs := strings.Fields(rest)
	i := 0
	for i < len(fs) && reProp.MatchString(strings.TrimSuffix(fs[i], ",")) {
		props = append(props, strings.TrimSuffix(fs[i], ","))
		i++
	}
	rem := strings.TrimSpace(rest)
	for _, p := range props {
		_ = p
	}
	if i > 0 {
		// cut the first i fields
		idx := 0
		for k := 0; k < i; k++ {
			idx = strings.Index(rem[idx:], fs[k]) + idx + len(fs[k])
		}
		rem = strings.TrimSpace(rem[idx:])
	}
	m := reNamed.FindStringSubmatch(rem)
	if m == nil || strings.HasPrefix(m[2], ":") {
		return nil, "", "", fmt.Errorf("clause needs a name: %q", rest)
	}
	return props, m[1], m[2], nil
}

// LoadContractFile parses one file. pkgName qualifies "func X" keys ("" for spec files, which
// must use extern with qualified names).
func (cs *ContractSet) LoadContractFile(path string, pkgName string) error {
	f, err := os.Open(path)
	if err != nil {
		return err
	}
	defer f.Close()
	sc := bufio.NewScanner(f)
	sc.Buffer(make([]byte, 1<<20), 1<<20)
	var lines []string
	var lnos []int
	ln := 0
	isSpec := strings.HasSuffix(path, ".spec")
	for sc.Scan() {
		ln++
		raw := sc.Text()
		t := strings.TrimSpace(raw)
		if isSpec {
			if strings.HasPrefix(t, "#") || t == "" {
				continue
			}
			t = strings.TrimPrefix(t, "//@")
		} else {
			if !strings.HasPrefix(t, "//@") {
				continue
			}
			t = strings.TrimPrefix(t, "//@")
		}
		t = strings.TrimSpace(t)
		if t == "" || strings.HasPrefix(t, "--") {
			continue
		}
		// strip trailing comment " -- ..."
		if i := strings.Index(t, " -- "); i >= 0 {
			t = strings.TrimSpace(t[:i])
		}
		if strings.HasPrefix(t, "| ") || t == "|" {
			if len(lines) == 0 {
				return fmt.Errorf("%s:%d: continuation without a line", path, ln)
			}
			lines[len(lines)-1] += " " + strings.TrimSpace(strings.TrimPrefix(t, "|"))
			continue
		}
		lines = append(lines, t)
		lnos = append(lnos, ln)
	}
	var cur *Contract
	var curLoop *LoopSpec
	fail := func(i int, format string, a ...any) error {
		return fmt.Errorf("%s:%d: %s", path, lnos[i], fmt.Sprintf(format, a...))
	}
	for i, t := range lines {
		kw := t
		rest := ""
		if j := strings.IndexAny(t, " \t"); j >= 0 {
			kw = t[:j]
			rest = strings.TrimSpace(t[j+1:])
		}
		switch kw {
		case "mode":
			m := map[string]string{}
			for _, kv := range strings.Fields(rest) {
				p := strings.SplitN(kv, "=", 2)
				if len(p) != 2 {
					return fail(i, "bad mode %q", kv)
				}
				m[p[0]] = p[1]
			}
			if cur == nil {
				if cs.PkgMode[pkgName] == nil {
					cs.PkgMode[pkgName] = map[string]string{}
				}
				for k, v := range m {
					cs.PkgMode[pkgName][k] = v
				}
			} else {
				if cur.Mode == nil {
					cur.Mode = map[string]string{}
				}
				for k, v := range m {
					cur.Mode[k] = v
				}
			}
		case "func", "extern":
			name := rest
			var params []string
			if kw == "extern" {
				j := strings.Index(rest, "(")
				if j < 0 || !strings.HasSuffix(rest, ")") {
					return fail(i, "extern needs a parameter list: %q", rest)
				}
				name = strings.TrimSpace(rest[:j])
				ps := strings.TrimSpace(rest[j+1 : len(rest)-1])
				if ps != "" {
					for _, p := range strings.Split(ps, ",") {
						params = append(params, strings.TrimSpace(p))
					}
				}
			} else {
				if pkgName != "" {
					name = pkgName + "." + name
				}
			}
			if _, dup := cs.Funcs[name]; dup {
				return fail(i, "duplicate contract for %s", name)
			}
			cur = &Contract{Key: name, ParamNames: params, Extern: kw == "extern", Trusted: kw == "extern", Loops: map[int]*LoopSpec{}, CallLoops: map[string]*LoopSpec{}, InlineAt: map[string]bool{}, ParamSpecs: map[string]string{}, File: path, Line: lnos[i]}
			cs.Funcs[name] = cur
			curLoop = nil
		case "spec-fun", "spec-def", "spec-rec":
			// spec-fun name(a int, b int) bool
			// spec-def name(a int) int = expr
			sf, err := parseSpecFun(rest, kw != "spec-fun")
			if err != nil {
				return fail(i, "%v", err)
			}
			sf.Rec = kw == "spec-rec"
			if _, dup := cs.SpecFuns[sf.Name]; dup {
				return fail(i, "duplicate spec function %s", sf.Name)
			}
			cs.SpecFuns[sf.Name] = sf
			cs.SpecOrd = append(cs.SpecOrd, sf.Name)
			cur = nil
		case "axiom":
			m := reNamed.FindStringSubmatch(rest)
			if m == nil {
				return fail(i, "axiom needs a name")
			}
			body := m[2]
			owner := ""
			if strings.HasPrefix(body, "owner ") {
				// "owner F; body": the axiom is emitted exactly when the specification function F is used
				if k := strings.Index(body, ";"); k > 0 {
					owner = strings.TrimSpace(body[len("owner "):k])
					body = strings.TrimSpace(body[k+1:])
				}
			}
			e, err := ParseSpec(body)
			if err != nil {
				return fail(i, "%v", err)
			}
			cs.Axioms = append(cs.Axioms, &Axiom{Name: m[1], Expr: e, Src: body, File: path, Owner: owner})
			cur = nil
		case "smt":
			cs.RawSMT = append(cs.RawSMT, rest)
		case "global", "ghost-global":
			fs := strings.SplitN(rest, " ", 2)
			if len(fs) != 2 {
				return fail(i, "global NAME TYPE")
			}
			if kw == "ghost-global" {
				// a component that exists only in the specification (written by ghost anchors alone): code whose
				// body is unknown cannot change it
				if cs.GhostGlobals == nil {
					cs.GhostGlobals = map[string]bool{}
				}
				cs.GhostGlobals[fs[0]] = true
			}
			ty, err := ParseSType(strings.TrimSpace(fs[1]))
			if err != nil {
				return fail(i, "%v", err)
			}
			cs.Globals[fs[0]] = ty
			cs.GlobOrd = append(cs.GlobOrd, fs[0])
			cur = nil
		default:
			if cur == nil {
				return fail(i, "clause %q outside a func", kw)
			}
			switch kw {
			case "props":
				cur.Props = strings.Fields(rest)
			case "inline":
				cur.Inline = true
			case "inline-at-callsites":
				cur.InlineCalls = true
			case "trusted":
				cur.Trusted = true
			case "pure":
				cur.Pure = true
			case "terminates":
				cur.Terminates = true
			case "rec-group":
				cur.RecGroup = strings.TrimSpace(rest)
			case "note":
				cur.Notes = append(cur.Notes, rest)
			case "modifies":
				cur.Modifies = append(cur.Modifies, strings.Fields(rest)...)
			case "ghost-in":
				fs := strings.SplitN(rest, " ", 2)
				if len(fs) != 2 {
					return fail(i, "ghost-in NAME TYPE")
				}
				ty, err := ParseSType(strings.TrimSpace(fs[1]))
				if err != nil {
					return fail(i, "%v", err)
				}
				cur.GhostIns = append(cur.GhostIns, GhostDecl{fs[0], ty, nil})
			case "ghost":
				fs := strings.SplitN(rest, " ", 2)
				if len(fs) != 2 {
					return fail(i, "ghost NAME TYPE")
				}
				tsrc := fs[1]
				var init SExpr
				if j := strings.Index(tsrc, " = "); j >= 0 {
					e, err := ParseSpec(tsrc[j+3:])
					if err != nil {
						return fail(i, "%v", err)
					}
					init = e
					tsrc = tsrc[:j]
				}
				ty, err := ParseSType(tsrc)
				if err != nil {
					return fail(i, "%v", err)
				}
				cur.Ghosts = append(cur.Ghosts, GhostDecl{fs[0], ty, init})
			case "param":
				m := reNamed.FindStringSubmatch(rest)
				if m == nil {
					return fail(i, "param NAME: spec")
				}
				cur.ParamSpecs[m[1]] = m[2]
			case "requires", "ensures", "ensures-assumed", "invariant", "ghost-assume", "onpanic":
				props, name, src, err := splitPropsName(rest)
				if err != nil {
					return fail(i, "%v", err)
				}
				e, err := ParseSpec(src)
				if err != nil {
					return fail(i, "%v", err)
				}
				cl := Clause{Name: name, Props: props, Expr: e, Src: src, Line: lnos[i]}
				switch kw {
				case "requires":
					cur.Requires = append(cur.Requires, cl)
				case "ghost-assume":
					cur.GhostAssume = append(cur.GhostAssume, cl)
				case "onpanic":
					cur.OnPanic = append(cur.OnPanic, cl)
				case "ensures":
					cur.Ensures = append(cur.Ensures, cl)
				case "ensures-assumed":
					// a postcondition that callers may use but that is NOT proved about the body: an explicit,
					// reported assumption (listed in the evidence of every run that uses it)
					cl.Assumed = true
					cur.Ensures = append(cur.Ensures, cl)
				case "invariant":
					if curLoop == nil {
						return fail(i, "invariant outside loop")
					}
					curLoop.Invs = append(curLoop.Invs, cl)
				}
			case "returns", "returns-def":
				if kw == "returns-def" {
					cur.ReturnsDef = true
				}
				e, err := ParseSpec(rest)
				if err != nil {
					return fail(i, "%v", err)
				}
				cur.Returns = e
				cur.ReturnsSrc = rest
			case "decreases":
				if curLoop == nil {
					// function-level variant: checked at every self-recursive call (termination of the recursion)
					e, err := ParseSpec(rest)
					if err != nil {
						return fail(i, "%v", err)
					}
					cur.Decreases = e
					cur.DecSrc = rest
					continue
				}
				e, err := ParseSpec(rest)
				if err != nil {
					return fail(i, "%v", err)
				}
				curLoop.Decreases = e
				curLoop.DecSrc = rest
			case "panics":
				fs := strings.SplitN(rest, " ", 2)
				switch fs[0] {
				case "never", "may":
					cur.Panics = fs[0]
				case "iff":
					if len(fs) != 2 {
						return fail(i, "panics iff EXPR")
					}
					e, err := ParseSpec(fs[1])
					if err != nil {
						return fail(i, "%v", err)
					}
					cur.Panics = "iff"
					cur.PanicsCond = e
					cur.PanicsSrc = fs[1]
				default:
					return fail(i, "panics never|may|iff")
				}
			case "inline-call":
				cur.InlineAt[strings.TrimSpace(rest)] = true
			case "loop":
				if mc := reCallLoop.FindStringSubmatch(t); mc != nil {
					n, _ := strconv.Atoi(mc[2])
					curLoop = &LoopSpec{Ord: n, Index: mc[3]}
					cur.CallLoops[mc[1]+"/"+mc[2]] = curLoop
					break
				}
				m := reLoop.FindStringSubmatch(t)
				if m == nil {
					return fail(i, "bad loop header %q", t)
				}
				n, _ := strconv.Atoi(m[1])
				curLoop = &LoopSpec{Ord: n, Index: m[2]}
				cur.Loops[n] = curLoop
			case "at":
				if mb := reAtBody.FindStringSubmatch(t); mb != nil {
					n, _ := strconv.Atoi(mb[2])
					lhs, rhs, err := ParseGhostStmt(mb[3])
					if err != nil {
						return fail(i, "%v", err)
					}
					cur.GhostAts = append(cur.GhostAts, GhostAt{Kind: mb[1], Ord: n, LHS: lhs, RHS: rhs, Src: mb[3]})
					break
				}
				m := reAt.FindStringSubmatch(t)
				if m == nil {
					return fail(i, "bad ghost anchor %q", t)
				}
				n, _ := strconv.Atoi(m[3])
				lhs, rhs, err := ParseGhostStmt(m[5])
				if err != nil {
					return fail(i, "%v", err)
				}
				cur.GhostAts = append(cur.GhostAts, GhostAt{Before: m[1] == "before", Kind: "call", Callee: m[2], Ord: n, LHS: lhs, RHS: rhs, Src: m[5], Pass: strings.TrimSpace(m[4]) == "pass"})
			default:
				return fail(i, "unknown clause %q", kw)
			}
		}
	}
	return nil
}

func parseSpecFun(src string, hasBody bool) (*SpecFun, error) {
	// name(a T, b U) R [= expr]
	j := strings.Index(src, "(")
	if j < 0 {
		return nil, fmt.Errorf("spec function needs parameters: %q", src)
	}
	name := strings.TrimSpace(src[:j])
	// find matching paren
	depth := 0
	k := j
	for ; k < len(src); k++ {
		if src[k] == '(' {
			depth++
		} else if src[k] == ')' {
			depth--
			if depth == 0 {
				break
			}
		}
	}
	if k >= len(src) {
		return nil, fmt.Errorf("unbalanced parens in %q", src)
	}
	ps := strings.TrimSpace(src[j+1 : k])
	rest := strings.TrimSpace(src[k+1:])
	sf := &SpecFun{Name: name, Src: src}
	if ps != "" {
		// split on commas at depth 0 of brackets
		var parts []string
		d := 0
		last := 0
		for i := 0; i < len(ps); i++ {
			switch ps[i] {
			case '[':
				d++
			case ']':
				d--
			case ',':
				if d == 0 {
					parts = append(parts, ps[last:i])
					last = i + 1
				}
			}
		}
		parts = append(parts, ps[last:])
		for _, p := range parts {
			p = strings.TrimSpace(p)
			fs := strings.SplitN(p, " ", 2)
			if len(fs) != 2 {
				return nil, fmt.Errorf("parameter needs a type: %q", p)
			}
			ty, err := ParseSType(strings.TrimSpace(fs[1]))
			if err != nil {
				return nil, err
			}
			sf.Params = append(sf.Params, SVar{fs[0], ty})
		}
	}
	retSrc := rest
	if hasBody {
		i := strings.Index(rest, " = ")
		if i < 0 {
			return nil, fmt.Errorf("spec-def needs '= body': %q", src)
		}
		retSrc = strings.TrimSpace(rest[:i])
		body, err := ParseSpec(rest[i+3:])
		if err != nil {
			return nil, err
		}
		sf.Body = body
	}
	ty, err := ParseSType(retSrc)
	if err != nil {
		return nil, err
	}
	sf.Ret = ty
	return sf, nil
}
