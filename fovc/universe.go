package fovc

import (
	"go/types"
	"sort"
)

// Map universe.  Map contents live in per-type state components that are created lazily, the first time a
// function touches a map of that type; a component created lazily is named after its entry value ("unchanged
// since entry").  That is only right while nothing has havocked the maps.  Before every event that havocs
// all maps (a callee with `modifies maps`, a loop whose body does, the call of an unknown function value) the
// components of EVERY map type of the program are therefore materialised, so that the havoc and every later
// frame clause (mapsframe) range over all of them and not only over the ones touched so far.
// The universe of a function: all map types without free type parameters reachable from the types of its
// package (deep walk through named types, struct fields, signatures, type arguments), plus the map types over
// the function's own type parameters that occur in its signature and body.

type mapTy struct{ k, v *Sort }

func hasTypeParam(t types.Type, seen map[types.Type]bool) bool {
	if seen[t] {
		return false
	}
	seen[t] = true
	switch x := t.(type) {
	case *types.TypeParam:
		return true
	case *types.Alias:
		return hasTypeParam(types.Unalias(x), seen)
	case *types.Named:
		if ta := x.TypeArgs(); ta != nil {
			for i := 0; i < ta.Len(); i++ {
				if hasTypeParam(ta.At(i), seen) {
					return true
				}
			}
		}
		return false
	case *types.Pointer:
		return hasTypeParam(x.Elem(), seen)
	case *types.Slice:
		return hasTypeParam(x.Elem(), seen)
	case *types.Array:
		return hasTypeParam(x.Elem(), seen)
	case *types.Map:
		return hasTypeParam(x.Key(), seen) || hasTypeParam(x.Elem(), seen)
	case *types.Chan:
		return hasTypeParam(x.Elem(), seen)
	case *types.Struct:
		for i := 0; i < x.NumFields(); i++ {
			if hasTypeParam(x.Field(i).Type(), seen) {
				return true
			}
		}
	case *types.Tuple:
		for i := 0; i < x.Len(); i++ {
			if hasTypeParam(x.At(i).Type(), seen) {
				return true
			}
		}
	case *types.Signature:
		return hasTypeParam(x.Params(), seen) || hasTypeParam(x.Results(), seen)
	}
	return false
}

// collectMaps walks t deeply and reports every map type in it.
func collectMaps(t types.Type, seen map[string]bool, out *[]*types.Map) {
	if t == nil {
		return
	}
	key := types.TypeString(t, nil)
	if seen[key] {
		return
	}
	seen[key] = true
	switch x := t.(type) {
	case *types.Alias:
		collectMaps(types.Unalias(x), seen, out)
	case *types.Named:
		if x.Obj().Pkg() == nil {
			return
		}
		if ta := x.TypeArgs(); ta != nil {
			for i := 0; i < ta.Len(); i++ {
				collectMaps(ta.At(i), seen, out)
			}
		}
		collectMaps(x.Underlying(), seen, out)
	case *types.Pointer:
		collectMaps(x.Elem(), seen, out)
	case *types.Slice:
		collectMaps(x.Elem(), seen, out)
	case *types.Array:
		collectMaps(x.Elem(), seen, out)
	case *types.Chan:
		collectMaps(x.Elem(), seen, out)
	case *types.Map:
		*out = append(*out, x)
		collectMaps(x.Key(), seen, out)
		collectMaps(x.Elem(), seen, out)
	case *types.Struct:
		for i := 0; i < x.NumFields(); i++ {
			collectMaps(x.Field(i).Type(), seen, out)
		}
	case *types.Tuple:
		for i := 0; i < x.Len(); i++ {
			collectMaps(x.At(i).Type(), seen, out)
		}
	case *types.Signature:
		collectMaps(x.Params(), seen, out)
		collectMaps(x.Results(), seen, out)
	}
}

// pkgMaps: all map types reachable from the expression and object types of a package (cached).
func (e *Engine) pkgMaps(info *types.Info, path string) []*types.Map {
	if e.mapCache == nil {
		e.mapCache = map[string][]*types.Map{}
	}
	if m, ok := e.mapCache[path]; ok {
		return m
	}
	seen := map[string]bool{}
	var out []*types.Map
	var tys []types.Type
	for _, tv := range info.Types {
		tys = append(tys, tv.Type)
	}
	for _, o := range info.Defs {
		if o != nil {
			tys = append(tys, o.Type())
		}
	}
	for _, o := range info.Uses {
		if o != nil && o.Pkg() != nil {
			tys = append(tys, o.Type())
		}
	}
	sort.Slice(tys, func(i, j int) bool { return types.TypeString(tys[i], nil) < types.TypeString(tys[j], nil) })
	for _, t := range tys {
		collectMaps(t, seen, &out)
	}
	e.mapCache[path] = out
	return out
}

func (fc *FuncCtx) mapUniverse() []mapTy {
	if fc.mapUni != nil {
		return fc.mapUni
	}
	uni := []mapTy{}
	have := map[string]bool{}
	own := map[string]bool{}
	if fc.Ref != nil && fc.Ref.Obj != nil {
		if sig, ok := fc.Ref.Obj.Type().(*types.Signature); ok {
			if tp := sig.TypeParams(); tp != nil {
				for i := 0; i < tp.Len(); i++ {
					own[tp.At(i).Obj().Name()] = true
				}
			}
			if tp := sig.RecvTypeParams(); tp != nil {
				for i := 0; i < tp.Len(); i++ {
					own[tp.At(i).Obj().Name()] = true
				}
			}
		}
	}
	saveTs := fc.tsubst
	fc.tsubst = nil
	defer func() { fc.tsubst = saveTs }()
	for _, m := range fc.E.pkgMaps(fc.Pkg.TypesInfo, fc.Pkg.PkgPath) {
		if hasTypeParam(m, map[types.Type]bool{}) {
			// only maps over the verified function's own type parameters, as they occur in its declaration
			if fc.Ref == nil || !fc.mapOverOwnParams(m, own) {
				continue
			}
		}
		var k, v *Sort
		func() {
			defer func() {
				if recover() != nil {
					k, v = nil, nil
				}
			}()
			k, v = fc.sortOf(m.Key()), fc.sortOf(m.Elem())
		}()
		if k == nil || v == nil {
			continue
		}
		key := mkey(k, v)
		if have[key] {
			continue
		}
		have[key] = true
		uni = append(uni, mapTy{k, v})
	}
	fc.mapUni = uni
	return uni
}

// mapOverOwnParams: every type parameter in m is one declared by the verified function itself (by object).
func (fc *FuncCtx) mapOverOwnParams(m *types.Map, own map[string]bool) bool {
	ok := true
	var walk func(t types.Type, seen map[types.Type]bool)
	walk = func(t types.Type, seen map[types.Type]bool) {
		if seen[t] {
			return
		}
		seen[t] = true
		switch x := t.(type) {
		case *types.TypeParam:
			if !own[x.Obj().Name()] || !fc.declaresTypeParam(x) {
				ok = false
			}
		case *types.Alias:
			walk(types.Unalias(x), seen)
		case *types.Named:
			if ta := x.TypeArgs(); ta != nil {
				for i := 0; i < ta.Len(); i++ {
					walk(ta.At(i), seen)
				}
			}
		case *types.Pointer:
			walk(x.Elem(), seen)
		case *types.Slice:
			walk(x.Elem(), seen)
		case *types.Map:
			walk(x.Key(), seen)
			walk(x.Elem(), seen)
		case *types.Struct:
			for i := 0; i < x.NumFields(); i++ {
				walk(x.Field(i).Type(), seen)
			}
		}
	}
	walk(m, map[types.Type]bool{})
	return ok
}

func (fc *FuncCtx) declaresTypeParam(tp *types.TypeParam) bool {
	sig, ok := fc.Ref.Obj.Type().(*types.Signature)
	if !ok {
		return false
	}
	for _, l := range []*types.TypeParamList{sig.TypeParams(), sig.RecvTypeParams()} {
		if l == nil {
			continue
		}
		for i := 0; i < l.Len(); i++ {
			if l.At(i) == tp {
				return true
			}
		}
	}
	return false
}

// materialiseStores makes every lazily created store component exist in st before a havoc of all of them.
func (fc *FuncCtx) materialiseStores(st *St, maps, bufs bool) {
	if maps {
		for _, m := range fc.mapUniverse() {
			fc.mapDom(st, m.k, m.v)
			fc.mapVal(st, m.k, m.v)
		}
	}
	if bufs {
		fc.bufHeap(st)
	}
}

// materialiseGlobals: every declared abstract global component exists in st (before a havoc of all of them).
func (fc *FuncCtx) materialiseGlobals(st *St) {
	var gs []string
	for g := range fc.E.CS.Globals {
		gs = append(gs, g)
	}
	sortStrings(gs)
	for _, g := range gs {
		fc.globOf(st, g, fc.sortOfSType(fc.E.CS.Globals[g], nil))
	}
}
