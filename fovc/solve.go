package fovc

import (
	"context"
	"fmt"
	"os"
	"os/exec"
	"path/filepath"
	"strings"
	"sync"
	"time"
)

type SolverCfg struct {
	TimeoutS int
	Workers  int
	WorkDir  string
	Seed     int
	Cross    bool // thorough: run all solvers and report disagreement
	Retries  int  // extra rounds (other seeds, doubled budget) for obligations left undecided
}

type solverDef struct {
	name string
	args func(file string, timeoutS int, seed int) []string
}

var solvers = []solverDef{
	{"z3-new-5.1.0", func(f string, t int, seed int) []string {
		return []string{"z3-new", fmt.Sprintf("-T:%d", t), fmt.Sprintf("smt.random_seed=%d", seed), f}
	}},
	{"z3-4.8.12", func(f string, t int, seed int) []string {
		return []string{"z3", fmt.Sprintf("-T:%d", t), fmt.Sprintf("smt.random_seed=%d", seed), f}
	}},
	{"cvc5-1.0", func(f string, t int, seed int) []string {
		return []string{"cvc5", fmt.Sprintf("--tlimit=%d", t*1000), "--strings-exp", fmt.Sprintf("--seed=%d", seed), f}
	}},
}

type solverAnswer struct {
	solver string
	result string // unsat sat unknown timeout error
	out    string
	secs   float64
}

func runSolver(ctx context.Context, sd solverDef, file string, timeoutS int, seed int) solverAnswer {
	args := sd.args(file, timeoutS, seed)
	cctx, cancel := context.WithTimeout(ctx, time.Duration(timeoutS+2)*time.Second)
	defer cancel()
	t0 := time.Now()
	cmd := exec.CommandContext(cctx, args[0], args[1:]...)
	out, _ := cmd.CombinedOutput()
	secs := time.Since(t0).Seconds()
	first := strings.TrimSpace(strings.SplitN(string(out), "\n", 2)[0])
	res := "error"
	switch {
	case first == "unsat":
		res = "unsat"
	case first == "sat":
		res = "sat"
	case first == "unknown":
		res = "unknown"
	case strings.Contains(first, "timeout") || cctx.Err() != nil:
		res = "timeout"
	}
	o := string(out)
	if len(o) > 4000 {
		o = o[:4000]
	}
	return solverAnswer{sd.name, res, o, secs}
}

// Discharge runs every obligation through the solver race.
func Discharge(obls []*Obligation, cfg SolverCfg) error {
	if cfg.Workers <= 0 {
		cfg.Workers = 5
	}
	if cfg.TimeoutS <= 0 {
		cfg.TimeoutS = 10
	}
	dir := cfg.WorkDir
	if dir == "" {
		d, err := os.MkdirTemp("", "fovc")
		if err != nil {
			return err
		}
		dir = d
		defer os.RemoveAll(d)
	} else {
		os.MkdirAll(dir, 0o755)
	}
	var wg sync.WaitGroup
	sem := make(chan struct{}, cfg.Workers)
	for i, o := range obls {
		if o.Result != "" {
			continue
		}
		wg.Add(1)
		sem <- struct{}{}
		go func(i int, o *Obligation) {
			defer wg.Done()
			defer func() { <-sem }()
			file := filepath.Join(dir, fmt.Sprintf("o%04d.smt2", i))
			if err := os.WriteFile(file, []byte(o.SMT), 0o644); err != nil {
				o.Result = "error"
				o.Detail = err.Error()
				return
			}
			raceOne(o, file, cfg)
			if cfg.WorkDir == "" {
				os.Remove(file)
			}
		}(i, o)
	}
	wg.Wait()
	// obligations no solver decided are retried with other seeds and a longer budget: a proof found
	// under any seed is a proof; only an obligation that stays undecided (or is refuted) fails
	for attempt := 1; attempt <= cfg.Retries; attempt++ {
		var again []*Obligation
		for _, o := range obls {
			if o.Result == "unknown" && !o.MustFail {
				again = append(again, o)
			}
		}
		if len(again) == 0 {
			break
		}
		c2 := cfg
		c2.Retries = 0
		c2.Seed = cfg.Seed + 101*attempt
		c2.TimeoutS = cfg.TimeoutS * 2
		for _, o := range again {
			o.Result = ""
			o.Detail += fmt.Sprintf("[retry %d, seed %d] ", attempt, c2.Seed)
		}
		Discharge(again, c2)
	}
	return nil
}

func raceOne(o *Obligation, file string, cfg SolverCfg) {
	ctx, cancel := context.WithCancel(context.Background())
	defer cancel()
	ch := make(chan solverAnswer, len(solvers))
	for _, sd := range solvers {
		go func(sd solverDef) { ch <- runSolver(ctx, sd, file, cfg.TimeoutS, cfg.Seed) }(sd)
	}
	var answers []solverAnswer
	decided := false
	for range solvers {
		a := <-ch
		answers = append(answers, a)
		if !decided && (a.result == "unsat" || a.result == "sat") {
			o.Result = a.result
			o.Solver = a.solver
			o.TimeS = a.secs
			decided = true
			if !cfg.Cross {
				cancel()
				break
			}
		}
	}
	if cfg.Cross && decided {
		for _, a := range answers {
			if (a.result == "sat" || a.result == "unsat") && a.result != o.Result {
				o.Detail += fmt.Sprintf("SOLVER DISAGREEMENT: %s says %s, %s says %s; ", o.Solver, o.Result, a.solver, a.result)
				o.Result = "disagree"
			}
		}
	}
	if !decided {
		o.Result = "unknown"
		var parts []string
		mx := 0.0
		for _, a := range answers {
			parts = append(parts, a.solver+":"+a.result)
			if a.secs > mx {
				mx = a.secs
			}
			if a.result == "error" {
				o.Detail += a.solver + " error: " + strings.TrimSpace(a.out) + "; "
			}
		}
		o.Solver = strings.Join(parts, ",")
		o.TimeS = mx
	}
}

// Ok: did the obligation come out as required?
func (o *Obligation) Ok() bool {
	if o.MustFail {
		return o.Result == "sat" || o.Result == "unknown"
	}
	return o.Result == "unsat"
}

// GetModel re-runs a failed obligation asking for a model (z3-new first).
func GetModel(o *Obligation, timeoutS int) string { return GetModelWith(o, nil, timeoutS) }

// GetModelWith adds extra assertions (e.g. size bounds for a small-model query) before asking for a model.
func GetModelWith(o *Obligation, extra []string, timeoutS int) string {
	d, err := os.MkdirTemp("", "fovcm")
	if err != nil {
		return ""
	}
	defer os.RemoveAll(d)
	file := filepath.Join(d, "m.smt2")
	smt := strings.Replace(o.SMT, "(check-sat)\n", strings.Join(extra, "\n")+"\n(check-sat)\n(get-model)\n", 1)
	smt = "(set-option :produce-models true)\n" + smt
	os.WriteFile(file, []byte(smt), 0o644)
	for _, s := range [][]string{{"z3-new", fmt.Sprintf("-T:%d", timeoutS), file}, {"z3", fmt.Sprintf("-T:%d", timeoutS), file}} {
		ctx, cancel := context.WithTimeout(context.Background(), time.Duration(timeoutS+2)*time.Second)
		out, _ := exec.CommandContext(ctx, s[0], s[1:]...).CombinedOutput()
		cancel()
		if strings.HasPrefix(string(out), "sat") {
			return string(out)
		}
	}
	return ""
}

// GetValues asks for the values of the given terms in a model of the failed obligation (with extra
// assertions, e.g. size bounds).  Returns nil when no model is found.
func GetValues(o *Obligation, extra []string, terms []string, timeoutS int) map[string]string {
	d, err := os.MkdirTemp("", "fovcv")
	if err != nil {
		return nil
	}
	defer os.RemoveAll(d)
	file := filepath.Join(d, "v.smt2")
	q := strings.Join(extra, "\n") + "\n(check-sat)\n"
	for _, t := range terms {
		q += "(get-value (" + t + "))\n"
	}
	smt := "(set-option :produce-models true)\n" + strings.Replace(o.SMT, "(check-sat)\n", q, 1)
	os.WriteFile(file, []byte(smt), 0o644)
	for _, s := range [][]string{{"z3-new", fmt.Sprintf("-T:%d", timeoutS), file}, {"z3", fmt.Sprintf("-T:%d", timeoutS), file}} {
		ctx, cancel := context.WithTimeout(context.Background(), time.Duration(timeoutS+2)*time.Second)
		out, _ := exec.CommandContext(ctx, s[0], s[1:]...).CombinedOutput()
		cancel()
		lines := strings.Split(strings.TrimSpace(string(out)), "\n")
		if len(lines) == 0 || strings.TrimSpace(lines[0]) != "sat" {
			continue
		}
		res := map[string]string{}
		rest := strings.Join(lines[1:], " ")
		for _, t := range terms {
			// ((term value))
			k := "((" + t + " "
			i := strings.Index(rest, k)
			if i < 0 {
				continue
			}
			j := i + len(k)
			depth := 0
			e := j
			for ; e < len(rest); e++ {
				if rest[e] == '(' {
					depth++
				} else if rest[e] == ')' {
					if depth == 0 {
						break
					}
					depth--
				}
			}
			res[t] = strings.TrimSpace(rest[j:e])
		}
		return res
	}
	return nil
}
