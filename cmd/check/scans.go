package main

import (
	"fmt"
	"go/ast"
	"go/types"
	"sort"
	"strings"

	"verif/fovc"
)

// Closed-world scans: syntactic obligations re-run on every check over the non-test files of the
// loaded /repo packages.  A failed scan is reported like any failed obligation.

func addScanObl(r *run, name, clause string, ok bool, detail string) {
	o := &fovc.Obligation{Name: "scan/" + name, Func: "scan", Kind: "scan", Clause: clause, Solver: "syntactic-scan", Detail: detail}
	if ok {
		o.Result = "unsat"
	} else {
		o.Result = "sat"
	}
	r.obls = append(r.obls, o)
}

// enclosingFuncs: for every call expression in the loaded packages: (package name, function name, callee).
func forEachCall(r *run, f func(pkgName, fn string, call *ast.CallExpr, callee *types.Func, pos string)) {
	var paths []string
	for p := range r.eng.Pkgs {
		paths = append(paths, p)
	}
	sort.Strings(paths)
	for _, pth := range paths {
		p := r.eng.Pkgs[pth]
		for _, file := range p.Syntax {
			fname := r.eng.Fset.File(file.Pos()).Name()
			if strings.HasSuffix(fname, "_test.go") {
				continue
			}
			for _, d := range file.Decls {
				fd, ok := d.(*ast.FuncDecl)
				if !ok || fd.Body == nil {
					continue
				}
				ast.Inspect(fd.Body, func(n ast.Node) bool {
					call, ok := n.(*ast.CallExpr)
					if !ok {
						return true
					}
					var id *ast.Ident
					switch fun := ast.Unparen(call.Fun).(type) {
					case *ast.Ident:
						id = fun
					case *ast.SelectorExpr:
						id = fun.Sel
					case *ast.IndexExpr:
						switch g := fun.X.(type) {
						case *ast.Ident:
							id = g
						case *ast.SelectorExpr:
							id = g.Sel
						}
					}
					if id == nil {
						return true
					}
					if callee, ok := p.TypesInfo.ObjectOf(id).(*types.Func); ok {
						pos := r.eng.Fset.Position(call.Pos())
						f(p.Name, fd.Name.Name, call, callee, fmt.Sprintf("%s:%d", strings.TrimPrefix(pos.Filename, repoDir+"/"), pos.Line))
					}
					return true
				})
			}
		}
	}
}

// scanFsWrites (C16, C07): the only way a file is written, created, renamed or removed is sys.WriteFile,
// and sys.WriteFile is called from transpileOne only (inside fc).
func scanFsWrites(r *run) {
	writers := map[string]bool{"WriteFile": true, "Create": true, "CreateTemp": true, "OpenFile": true, "Remove": true, "RemoveAll": true, "Rename": true, "Mkdir": true, "MkdirAll": true, "MkdirTemp": true, "Truncate": true, "Symlink": true, "Link": true, "Chmod": true, "WriteString": false}
	var bad []string
	var sysCallers []string
	forEachCall(r, func(pkgName, fn string, call *ast.CallExpr, callee *types.Func, pos string) {
		if callee.Pkg() == nil {
			return
		}
		switch callee.Pkg().Path() {
		case "os", "io/ioutil":
			if writers[callee.Name()] && !(pkgName == "sys" && fn == "WriteFile" && callee.Name() == "WriteFile") {
				bad = append(bad, fmt.Sprintf("%s.%s calls %s.%s at %s", pkgName, fn, callee.Pkg().Name(), callee.Name(), pos))
			}
		case "os/exec", "syscall":
			bad = append(bad, fmt.Sprintf("%s.%s calls %s.%s at %s", pkgName, fn, callee.Pkg().Name(), callee.Name(), pos))
		}
		if callee.Pkg().Name() == "sys" && callee.Name() == "WriteFile" && strings.HasSuffix(callee.Pkg().Path(), "folang/pkg/sys") {
			sysCallers = append(sysCallers, pkgName+"."+fn)
			if !(pkgName == "main" && fn == "transpileOne") {
				bad = append(bad, fmt.Sprintf("%s.%s calls sys.WriteFile at %s", pkgName, fn, pos))
			}
		}
	})
	addScanObl(r, "fs-writes", "no function other than transpileOne (via sys.WriteFile) writes, creates, renames or removes a file", len(bad) == 0, strings.Join(bad, "; "))
	r.notes = append(r.notes, "callers of sys.WriteFile found by the scan: "+strings.Join(sysCallers, ", "))
}

// scanRootLetUsesResetOnly (C07): in parseRootLet the incoming parse state ps0 occurs exactly once, as
// the argument of psResetTmpCtx in the first statement: everything the definition sees of the history
// goes through the reset.
func scanRootLetUsesResetOnly(r *run) {
	ref := r.eng.FuncDecl["main.parseRootLet"]
	if ref == nil {
		addScanObl(r, "parseRootLet-uses-reset-only", "parseRootLet exists", false, "function not found")
		return
	}
	// the incoming state is the last parameter
	params := ref.Decl.Type.Params.List
	var psName string
	if len(params) > 0 && len(params[len(params)-1].Names) > 0 {
		psName = params[len(params)-1].Names[0].Name
	}
	uses := 0
	okFirst := false
	if len(ref.Decl.Body.List) > 0 {
		if as, ok := ref.Decl.Body.List[0].(*ast.AssignStmt); ok && len(as.Rhs) == 1 {
			if call, ok := as.Rhs[0].(*ast.CallExpr); ok {
				if id, ok := call.Fun.(*ast.Ident); ok && id.Name == "psResetTmpCtx" && len(call.Args) == 1 {
					if a, ok := call.Args[0].(*ast.Ident); ok && a.Name == psName {
						okFirst = true
					}
				}
			}
		}
	}
	ast.Inspect(ref.Decl.Body, func(n ast.Node) bool {
		if id, ok := n.(*ast.Ident); ok && id.Name == psName {
			if obj := ref.Pkg.TypesInfo.Uses[id]; obj != nil {
				uses++
			}
		}
		return true
	})
	addScanObl(r, "parseRootLet-uses-reset-only", "parseRootLet uses its incoming parse state only as the argument of psResetTmpCtx in its first statement", okFirst && uses == 1, fmt.Sprintf("first statement is the reset: %v; uses of %s: %d", okFirst, psName, uses))
}
