package main

import (
	"fmt"
	"go/ast"
	"go/types"
	"sort"
	"strings"

	"verif/fovc"
)

// Closed-world scans: syntactic obligations re-run on every check over the non-test files of the
// loaded /repo packages.  A failed scan is reported like any failed obligation.

func addScanObl(r *run, name, clause string, ok bool, detail string) {
	o := &fovc.Obligation{Name: "scan/" + name, Func: "scan", Kind: "scan", Clause: clause, Solver: "syntactic-scan", Detail: detail}
	if ok {
		o.Result = "unsat"
	} else {
		o.Result = "sat"
	}
	r.obls = append(r.obls, o)
}

// enclosingFuncs: for every call expression in the loaded packages: (package name, function name, callee).
func forEachCall(r *run, f func(pkgName, fn string, call *ast.CallExpr, callee *types.Func, pos string)) {
	var paths []string
	for p := range r.eng.Pkgs {
		paths = append(paths, p)
	}
	sort.Strings(paths)
	for _, pth := range paths {
		p := r.eng.Pkgs[pth]
		for _, file := range p.Syntax {
			fname := r.eng.Fset.File(file.Pos()).Name()
			if strings.HasSuffix(fname, "_test.go") {
				continue
			}
			for _, d := range file.Decls {
				fd, ok := d.(*ast.FuncDecl)
				if !ok || fd.Body == nil {
					continue
				}
				ast.Inspect(fd.Body, func(n ast.Node) bool {
					call, ok := n.(*ast.CallExpr)
					if !ok {
						return true
					}
					var id *ast.Ident
					switch fun := ast.Unparen(call.Fun).(type) {
					case *ast.Ident:
						id = fun
					case *ast.SelectorExpr:
						id = fun.Sel
					case *ast.IndexExpr:
						switch g := fun.X.(type) {
						case *ast.Ident:
							id = g
						case *ast.SelectorExpr:
							id = g.Sel
						}
					}
					if id == nil {
						return true
					}
					if callee, ok := p.TypesInfo.ObjectOf(id).(*types.Func); ok {
						pos := r.eng.Fset.Position(call.Pos())
						f(p.Name, fd.Name.Name, call, callee, fmt.Sprintf("%s:%d", strings.TrimPrefix(pos.Filename, repoDir+"/"), pos.Line))
					}
					return true
				})
			}
		}
	}
}

// scanFsWrites (C16, C07): the only way a file is written, created, renamed or removed is sys.WriteFile,
// and sys.WriteFile is called from transpileOne only (inside fc).
func scanFsWrites(r *run) {
	writers := map[string]bool{"WriteFile": true, "Create": true, "CreateTemp": true, "OpenFile": true, "Remove": true, "RemoveAll": true, "Rename": true, "Mkdir": true, "MkdirAll": true, "MkdirTemp": true, "Truncate": true, "Symlink": true, "Link": true, "Chmod": true, "WriteString": false}
	var bad []string
	var sysCallers []string
	forEachCall(r, func(pkgName, fn string, call *ast.CallExpr, callee *types.Func, pos string) {
		if callee.Pkg() == nil {
			return
		}
		switch callee.Pkg().Path() {
		case "os", "io/ioutil":
			if writers[callee.Name()] && !(pkgName == "sys" && fn == "WriteFile" && callee.Name() == "WriteFile") {
				bad = append(bad, fmt.Sprintf("%s.%s calls %s.%s at %s", pkgName, fn, callee.Pkg().Name(), callee.Name(), pos))
			}
		case "os/exec", "syscall":
			bad = append(bad, fmt.Sprintf("%s.%s calls %s.%s at %s", pkgName, fn, callee.Pkg().Name(), callee.Name(), pos))
		}
		if callee.Pkg().Name() == "sys" && callee.Name() == "WriteFile" && strings.HasSuffix(callee.Pkg().Path(), "folang/pkg/sys") {
			sysCallers = append(sysCallers, pkgName+"."+fn)
			if !(pkgName == "main" && fn == "transpileOne") {
				bad = append(bad, fmt.Sprintf("%s.%s calls sys.WriteFile at %s", pkgName, fn, pos))
			}
		}
	})
	addScanObl(r, "fs-writes", "no function other than transpileOne (via sys.WriteFile) writes, creates, renames or removes a file", len(bad) == 0, strings.Join(bad, "; "))
	r.notes = append(r.notes, "callers of sys.WriteFile found by the scan: "+strings.Join(sysCallers, ", "))
}

// scanRootLetUsesResetOnly (C07): in parseRootLet the incoming parse state ps0 occurs exactly once, as
// the argument of psResetTmpCtx in the first statement: everything the definition sees of the history
// goes through the reset.
func scanRootLetUsesResetOnly(r *run) {
	ref := r.eng.FuncDecl["main.parseRootLet"]
	if ref == nil {
		addScanObl(r, "parseRootLet-uses-reset-only", "parseRootLet exists", false, "function not found")
		return
	}
	// the incoming state is the last parameter
	params := ref.Decl.Type.Params.List
	var psName string
	if len(params) > 0 && len(params[len(params)-1].Names) > 0 {
		psName = params[len(params)-1].Names[0].Name
	}
	uses := 0
	okFirst := false
	if len(ref.Decl.Body.List) > 0 {
		if as, ok := ref.Decl.Body.List[0].(*ast.AssignStmt); ok && len(as.Rhs) == 1 {
			if call, ok := as.Rhs[0].(*ast.CallExpr); ok {
				if id, ok := call.Fun.(*ast.Ident); ok && id.Name == "psResetTmpCtx" && len(call.Args) == 1 {
					if a, ok := call.Args[0].(*ast.Ident); ok && a.Name == psName {
						okFirst = true
					}
				}
			}
		}
	}
	ast.Inspect(ref.Decl.Body, func(n ast.Node) bool {
		if id, ok := n.(*ast.Ident); ok && id.Name == psName {
			if obj := ref.Pkg.TypesInfo.Uses[id]; obj != nil {
				uses++
			}
		}
		return true
	})
	addScanObl(r, "parseRootLet-uses-reset-only", "parseRootLet uses its incoming parse state only as the argument of psResetTmpCtx in its first statement", okFirst && uses == 1, fmt.Sprintf("first statement is the reset: %v; uses of %s: %d", okFirst, psName, uses))
}

// scanBinOpTable (C08, C10): the operator table literal binOpMap is exactly the published table:
// the 13 operators, ranks strictly increasing across the published groups and equal inside a group
// (order constraints, not the numbers), Go spelling and IsBoolOp per entry, = / <> mapped to
// frt.OpEqual / frt.OpNotEqual, |> to frt.Pipe.  Also: binOpMap is never assigned or written.
func scanBinOpTable(r *run) {
	p := r.eng.ByName["main"]
	type ent struct {
		prec int
		name string
		isb  bool
	}
	tab := map[string]ent{}
	found := false
	var problems []string
	if p == nil {
		addScanObl(r, "binOpMap-table", "package main loaded", false, "not loaded")
		return
	}
	for _, f := range p.Syntax {
		for _, d := range f.Decls {
			gd, ok := d.(*ast.GenDecl)
			if !ok {
				continue
			}
			for _, sp := range gd.Specs {
				vs, ok := sp.(*ast.ValueSpec)
				if !ok || len(vs.Names) != 1 || vs.Names[0].Name != "binOpMap" || len(vs.Values) != 1 {
					continue
				}
				cl, ok := vs.Values[0].(*ast.CompositeLit)
				if !ok {
					continue
				}
				found = true
				for _, el := range cl.Elts {
					kv, ok := el.(*ast.KeyValueExpr)
					if !ok {
						problems = append(problems, "entry is not key: value")
						continue
					}
					k, _ := kv.Key.(*ast.Ident)
					v, _ := kv.Value.(*ast.CompositeLit)
					if k == nil || v == nil || len(v.Elts) != 3 {
						problems = append(problems, "entry not of the form New_TokenType_X: {rank, \"go\", bool}")
						continue
					}
					var e ent
					for i, x := range v.Elts {
						if kv2, ok := x.(*ast.KeyValueExpr); ok {
							x = kv2.Value
						}
						tv := p.TypesInfo.Types[x]
						if tv.Value == nil {
							problems = append(problems, "non-constant table entry for "+k.Name)
							continue
						}
						switch i {
						case 0:
							fmt.Sscan(tv.Value.ExactString(), &e.prec)
						case 1:
							e.name = strings.Trim(tv.Value.ExactString(), "\"")
						case 2:
							e.isb = tv.Value.ExactString() == "true"
						}
					}
					if _, dup := tab[k.Name]; dup {
						problems = append(problems, "duplicate key "+k.Name)
					}
					tab[strings.TrimPrefix(k.Name, "New_TokenType_")] = e
				}
			}
		}
	}
	if !found {
		addScanObl(r, "binOpMap-table", "the operator table literal binOpMap exists", false, "not found")
		return
	}
	groups := [][]string{{"PIPE"}, {"AMPAMP", "BARBAR", "GT", "LT", "GE", "LE"}, {"EQ", "BRACKET"}, {"PLUS", "MINUS"}, {"ASTER", "SLASH"}}
	spelling := map[string]string{"PIPE": "frt.Pipe", "AMPAMP": "&&", "BARBAR": "||", "GT": ">", "LT": "<", "GE": ">=", "LE": "<=", "EQ": "frt.OpEqual", "BRACKET": "frt.OpNotEqual", "PLUS": "+", "MINUS": "-", "ASTER": "*", "SLASH": "/"}
	boolop := map[string]bool{"AMPAMP": true, "BARBAR": true, "GT": true, "LT": true, "GE": true, "LE": true, "EQ": true, "BRACKET": true}
	n := 0
	prev := -1 << 30
	for _, g := range groups {
		rank := 0
		for i, k := range g {
			e, ok := tab[k]
			if !ok {
				problems = append(problems, "operator "+k+" missing from the table")
				continue
			}
			n++
			if i == 0 {
				rank = e.prec
			} else if e.prec != rank {
				problems = append(problems, fmt.Sprintf("%s has rank %d, its group has %d (operators of one published group must have equal rank)", k, e.prec, rank))
			}
			if e.name != spelling[k] {
				problems = append(problems, fmt.Sprintf("%s is emitted as %q, published spelling is %q", k, e.name, spelling[k]))
			}
			if e.isb != boolop[k] {
				problems = append(problems, fmt.Sprintf("%s: IsBoolOp is %v, should be %v", k, e.isb, boolop[k]))
			}
		}
		if rank <= prev {
			problems = append(problems, fmt.Sprintf("group %v has rank %d, not above the looser group's rank %d", g, rank, prev))
		}
		prev = rank
	}
	if len(tab) != n || n != 13 {
		problems = append(problems, fmt.Sprintf("the table has %d entries, %d of them published operators (expected exactly the 13 published ones)", len(tab), n))
	}
	// binOpMap is never written
	for _, f := range p.Syntax {
		if strings.HasSuffix(r.eng.Fset.File(f.Pos()).Name(), "_test.go") {
			continue
		}
		ast.Inspect(f, func(nd ast.Node) bool {
			if as, ok := nd.(*ast.AssignStmt); ok {
				for _, l := range as.Lhs {
					if ix, ok := l.(*ast.IndexExpr); ok {
						l = ix.X
					}
					if sel, ok := l.(*ast.SelectorExpr); ok {
						l = sel.X
					}
					if id, ok := l.(*ast.Ident); ok && (id.Name == "binOpMap" || id.Name == "binOpMapWrapper") {
						problems = append(problems, "binOpMap is written at "+r.eng.Fset.Position(as.Pos()).String())
					}
				}
			}
			return true
		})
	}
	addScanObl(r, "binOpMap-table", "binOpMap is exactly the published operator table (13 operators; |> loosest, then && || < > <= >=, then = <>, then + -, then * /; published Go spellings; = and <> through frt.OpEqual / frt.OpNotEqual) and is never written", len(problems) == 0, strings.Join(problems, "; "))
}

// scanBinOpCallSites (C08): newBinOpCall is called only from parseBinAfter, with the accumulated
// expression as the left and the freshly parsed operand as the right argument.
func scanBinOpCallSites(r *run) {
	var bad []string
	n := 0
	forEachCall(r, func(pkgName, fn string, call *ast.CallExpr, callee *types.Func, pos string) {
		if pkgName != "main" || callee.Name() != "newBinOpCall" {
			return
		}
		n++
		if fn != "parseBinAfter" {
			bad = append(bad, "newBinOpCall is also called from "+fn+" at "+pos)
			return
		}
		if len(call.Args) != 5 {
			bad = append(bad, "unexpected arity at "+pos)
			return
		}
		l, _ := call.Args[3].(*ast.Ident)
		rr, _ := call.Args[4].(*ast.Ident)
		if l == nil || rr == nil || l.Name != "cur" || rr.Name != "rhs" {
			bad = append(bad, "parseBinAfter does not pass (cur, rhs) as (left, right) at "+pos)
		}
	})
	if n == 0 {
		bad = append(bad, "no call of newBinOpCall found")
	}
	addScanObl(r, "newBinOpCall-call-sites", "newBinOpCall is called only from parseBinAfter, with the accumulated expression as left and the new operand as right operand", len(bad) == 0, strings.Join(bad, "; "))
}

// scanNondeterminism (C05): closed-world scan of the sources of run-to-run nondeterminism in Go.
func scanNondeterminism(r *run) {
	allowedEnum := map[string]bool{
		"main.exaustiveCheck": true, "main.eqsItems": true, "main.eqsUnion": true, "main.scLookupRecFacCur": true, "main.piRegAll": true,
	}
	allowedRange := map[string]bool{"dict.KVs": true, "dict.Keys": true, "dict.Values": true}
	var bad []string
	var sites []string
	var paths []string
	for p := range r.eng.Pkgs {
		paths = append(paths, p)
	}
	sort.Strings(paths)
	for _, pth := range paths {
		p := r.eng.Pkgs[pth]
		for _, file := range p.Syntax {
			fname := r.eng.Fset.File(file.Pos()).Name()
			if strings.HasSuffix(fname, "_test.go") {
				continue
			}
			for _, im := range file.Imports {
				switch strings.Trim(im.Path.Value, "\"") {
				case "time", "math/rand", "math/rand/v2", "crypto/rand", "unsafe", "sync", "sync/atomic", "runtime":
					bad = append(bad, fmt.Sprintf("%s imports %s", strings.TrimPrefix(fname, repoDir+"/"), im.Path.Value))
				}
			}
			for _, d := range file.Decls {
				fd, ok := d.(*ast.FuncDecl)
				if !ok || fd.Body == nil {
					continue
				}
				fkey := p.Name + "." + fd.Name.Name
				ast.Inspect(fd.Body, func(n ast.Node) bool {
					pos := func() string {
						ps := r.eng.Fset.Position(n.Pos())
						return fmt.Sprintf("%s:%d", strings.TrimPrefix(ps.Filename, repoDir+"/"), ps.Line)
					}
					switch x := n.(type) {
					case *ast.GoStmt:
						bad = append(bad, "go statement in "+fkey+" at "+pos())
					case *ast.SelectStmt:
						bad = append(bad, "select in "+fkey+" at "+pos())
					case *ast.RangeStmt:
						if tv, ok := p.TypesInfo.Types[x.X]; ok {
							if _, isMap := tv.Type.Underlying().(*types.Map); isMap {
								sites = append(sites, "range over map in "+fkey)
								if !allowedRange[fkey] {
									bad = append(bad, "range over a map in "+fkey+" at "+pos()+" (not a listed enumeration site)")
								}
							}
						}
					case *ast.BasicLit:
						if strings.Contains(x.Value, "%p") {
							bad = append(bad, "%p in a format string in "+fkey+" at "+pos())
						}
					}
					return true
				})
			}
		}
	}
	forEachCall(r, func(pkgName, fn string, call *ast.CallExpr, callee *types.Func, pos string) {
		if callee.Pkg() == nil {
			return
		}
		if strings.HasSuffix(callee.Pkg().Path(), "folang/pkg/dict") && (callee.Name() == "Keys" || callee.Name() == "Values" || callee.Name() == "KVs") {
			sites = append(sites, "dict."+callee.Name()+" in "+pkgName+"."+fn)
			if !allowedEnum[pkgName+"."+fn] {
				bad = append(bad, "dict."+callee.Name()+" is called in "+pkgName+"."+fn+" at "+pos+" (not a listed consumer with an order-free contract)")
			}
		}
		if callee.Pkg().Path() == "os" && (callee.Name() == "Getenv" || callee.Name() == "LookupEnv" || callee.Name() == "Environ" || callee.Name() == "Getpid" || callee.Name() == "Hostname") {
			bad = append(bad, pkgName+"."+fn+" reads the environment ("+callee.Name()+") at "+pos)
		}
	})
	addScanObl(r, "nondeterminism-sources", "no goroutine, select, time, randomness, environment read, %p or unsafe; every map range and every dict.Keys/Values/KVs call is a listed consumer site", len(bad) == 0, strings.Join(bad, "; "))
	sort.Strings(sites)
	r.notes = append(r.notes, "enumeration sites found by the scan: "+strings.Join(sites, "; "))
}

// scanColumnReaders (C06 L4): who reads the column and the offside stack.
func scanColumnReaders(r *run) {
	p := r.eng.ByName["main"]
	if p == nil {
		addScanObl(r, "column-readers", "package main loaded", false, "")
		return
	}
	allowedCol := map[string]bool{"psCurCol": true, "tkzNext": true}
	allowedOff := map[string]bool{"psCurOffside": true, "psPushOffside": true, "psPopOffside": true, "psWithTkz": true, "psWithScope": true, "psWithOffside": true, "psWithTVCtx": true, "psWithTDCtx": true, "newParse": true}
	var bad []string
	for _, f := range p.Syntax {
		if strings.HasSuffix(r.eng.Fset.File(f.Pos()).Name(), "_test.go") {
			continue
		}
		for _, d := range f.Decls {
			fd, ok := d.(*ast.FuncDecl)
			if !ok || fd.Body == nil {
				continue
			}
			ast.Inspect(fd.Body, func(n ast.Node) bool {
				sel, ok := n.(*ast.SelectorExpr)
				if !ok {
					return true
				}
				s, ok := p.TypesInfo.Selections[sel]
				if !ok || s.Kind() != types.FieldVal {
					return true
				}
				recv := s.Recv().String()
				switch {
				case sel.Sel.Name == "col" && strings.HasSuffix(recv, "Tokenizer"):
					if !allowedCol[fd.Name.Name] {
						bad = append(bad, "Tokenizer.col is read in "+fd.Name.Name)
					}
				case sel.Sel.Name == "offsideCol" && strings.HasSuffix(recv, "ParseState"):
					if !allowedOff[fd.Name.Name] {
						bad = append(bad, "ParseState.offsideCol is read in "+fd.Name.Name)
					}
				}
				return true
			})
		}
	}
	addScanObl(r, "column-readers", "Tokenizer.col is read only by psCurCol / tkzNext and ParseState.offsideCol only by the offside primitives and the parse-state constructors", len(bad) == 0, strings.Join(bad, "; "))
}

// scanNotOperand (C08): in parseTerm the operand of prefix `not` is parsed by a recursive call of
// parseTerm (an operand: atom, application, parenthesised expression), never by the expression parser:
// "prefix not applies to the following application" and swallows no binary operator.
func scanNotOperand(r *run) {
	ref := r.eng.FuncDecl["main.parseTerm"]
	if ref == nil {
		addScanObl(r, "not-operand-is-a-term", "parseTerm exists", false, "function not found")
		return
	}
	found := false
	ok := false
	detail := ""
	ast.Inspect(ref.Decl.Body, func(n ast.Node) bool {
		cc, isCC := n.(*ast.CaseClause)
		if !isCC || len(cc.List) != 1 {
			return true
		}
		id, isID := cc.List[0].(*ast.Ident)
		if !isID || id.Name != "TokenType_NOT" {
			return true
		}
		found = true
		selfCalls, exprCalls := 0, 0
		for _, st := range cc.Body {
			ast.Inspect(st, func(m ast.Node) bool {
				if c, isCall := m.(*ast.CallExpr); isCall {
					if f, isF := c.Fun.(*ast.Ident); isF {
						switch f.Name {
						case "parseTerm":
							selfCalls++
						case "pExpr", "parseExpr", "parseExprWithPrec", "parseBinAfter":
							exprCalls++
						}
					}
				}
				return true
			})
		}
		ok = selfCalls == 1 && exprCalls == 0
		detail = fmt.Sprintf("recursive parseTerm calls in the not arm: %d, expression-parser calls: %d", selfCalls, exprCalls)
		return false
	})
	addScanObl(r, "not-operand-is-a-term", "in parseTerm the operand of prefix not is parsed by parseTerm itself (one operand), not by the expression parser", found && ok, detail)
}

// scanRegistrationPrimitives (C03, C07): the registration primitives are abstract in the contracts (they store
// closures in scope dictionaries; each is ASSUMED to log exactly its own entry).  What the assumption rests on
// is checked here, syntactically, on every run: the body of each primitive is straight-line code (no if / for /
// switch, no function literal around the store) that performs exactly the listed unconditional dict.Add calls,
// each on the named field of the scope's dictionary record (or of the global table) with the function's key
// parameter as the key.  A guard around the store ("skip if present"), a second store, or a store into another
// dictionary fails this obligation.
func scanRegistrationPrimitives(r *run) {
	type want struct {
		fn     string
		fields []string // dictionary (field of SCSDict(s), or global variable) of each dict.Add, in order
		keyArg int      // index of the parameter used as the key; -1: the key is a call on a parameter
	}
	wants := []want{
		{"main.scDefVar", []string{"VarFacMap"}, 1},
		{"main.scRegisterVarFac", []string{"VarFacMap"}, 1},
		{"main.scRegisterTypeFac", []string{"TypeFacMap"}, 1},
		{"main.scRegisterRecFac", []string{"RecFacMap", "TypeFacMap"}, 1},
		{"main.updateUniInfo", []string{"g_uniInfoDic"}, -1},
		{"main.updateRecInfo", []string{"g_recInfoDic"}, -1},
	}
	for _, w := range wants {
		ref := r.eng.FuncDecl[w.fn]
		name := "registration-primitive-" + strings.TrimPrefix(w.fn, "main.")
		what := w.fn + " is straight-line code that stores unconditionally, exactly once per listed dictionary (" + strings.Join(w.fields, ", ") + "), under its key parameter"
		if ref == nil || ref.Decl.Body == nil {
			addScanObl(r, name, what, false, "function not found")
			continue
		}
		var params []string
		for _, f := range ref.Decl.Type.Params.List {
			for _, n := range f.Names {
				params = append(params, n.Name)
			}
		}
		var problems []string
		var adds []string
		for _, st := range ref.Decl.Body.List {
			switch s := st.(type) {
			case *ast.AssignStmt, *ast.DeclStmt:
				// a local definition: may not contain a function literal that stores, or any control flow
				ast.Inspect(s, func(n ast.Node) bool {
					if c, ok := n.(*ast.CallExpr); ok && isDictAdd(c) {
						problems = append(problems, "a store inside a definition statement")
					}
					return true
				})
			case *ast.ExprStmt:
				c, ok := s.X.(*ast.CallExpr)
				if !ok || !isDictAdd(c) || len(c.Args) != 3 {
					problems = append(problems, "a statement that is not a plain dict.Add call")
					continue
				}
				// first argument: <x>.Field or a global
				field := ""
				switch a := c.Args[0].(type) {
				case *ast.SelectorExpr:
					field = a.Sel.Name
				case *ast.Ident:
					field = a.Name
				}
				adds = append(adds, field)
				// key
				if w.keyArg >= 0 {
					if id, ok := c.Args[1].(*ast.Ident); !ok || w.keyArg >= len(params) || id.Name != params[w.keyArg] {
						problems = append(problems, "the key of the store is not the key parameter")
					}
				} else {
					kc, ok := c.Args[1].(*ast.CallExpr)
					okKey := false
					if ok && len(kc.Args) == 1 {
						if id, ok := kc.Args[0].(*ast.Ident); ok && len(params) > 0 && id.Name == params[0] {
							okKey = true
						}
					}
					if !okKey {
						problems = append(problems, "the key of the store is not computed from the first parameter")
					}
				}
			default:
				problems = append(problems, fmt.Sprintf("control flow or another statement kind (%T)", st))
			}
		}
		if strings.Join(adds, ",") != strings.Join(w.fields, ",") {
			problems = append(problems, "stores found: ["+strings.Join(adds, ", ")+"]")
		}
		addScanObl(r, name, what, len(problems) == 0, strings.Join(problems, "; "))
	}
}

func isDictAdd(c *ast.CallExpr) bool {
	if sel, ok := c.Fun.(*ast.SelectorExpr); ok {
		if id, ok := sel.X.(*ast.Ident); ok && id.Name == "dict" && sel.Sel.Name == "Add" {
			return true
		}
	}
	return false
}
