package main

import (
	"fmt"
	"os"
	"os/exec"
	"path/filepath"
	"strings"

	"verif/fovc"
)

// Glue lemmas (DESIGN §3): consequences of the spec libraries' defining axioms that the proofs use as
// axioms.  They are about spec functions only (no code) and are discharged here by SMT, per check:
// the inductive ones as base case + inductive step, the others directly.

type lemmaQuery struct {
	name   string
	clause string
	smt    string
}

const joinDecls = `(set-logic ALL)
(declare-sort Seq_String 0)
(declare-fun seq_len_String (Seq_String) Int)
(declare-fun seq_at_String (Seq_String Int) String)
(declare-fun join_prefix (Seq_String String Int) String)
(assert (forall ((xs Seq_String) (sep String)) (! (= (join_prefix xs sep 0) "") :pattern ((join_prefix xs sep 0)))))
(assert (forall ((xs Seq_String) (sep String)) (! (= (join_prefix xs sep 1) (seq_at_String xs 0)) :pattern ((join_prefix xs sep 1)))))
(assert (forall ((xs Seq_String) (sep String) (n Int)) (! (=> (>= n 1) (= (join_prefix xs sep (+ n 1)) (str.++ (join_prefix xs sep n) sep (seq_at_String xs n)))) :pattern ((join_prefix xs sep (+ n 1))))))
(declare-const xs Seq_String)
(declare-const ys Seq_String)
(declare-const sep String)
(declare-const n Int)
`

func lemmaQueries(which ...string) []lemmaQuery {
	all := map[string][]lemmaQuery{
		"join": {
			{"lemma/join-cong.base0", "join_prefix(xs,sep,0) == join_prefix(ys,sep,0)", joinDecls + "(assert (not (= (join_prefix xs sep 0) (join_prefix ys sep 0))))\n(check-sat)\n"},
			{"lemma/join-cong.base1", "xs[0]==ys[0] ==> join_prefix(xs,sep,1) == join_prefix(ys,sep,1)", joinDecls + "(assert (= (seq_at_String xs 0) (seq_at_String ys 0)))\n(assert (not (= (join_prefix xs sep 1) (join_prefix ys sep 1))))\n(check-sat)\n"},
			{"lemma/join-cong.step", "n>=1, (forall k<n+1: xs[k]==ys[k]), IH at n ==> join_prefix(xs,sep,n+1) == join_prefix(ys,sep,n+1)", joinDecls + `(assert (>= n 1))
(assert (forall ((k Int)) (=> (and (<= 0 k) (< k (+ n 1))) (= (seq_at_String xs k) (seq_at_String ys k)))))
; induction hypothesis at n (its premise follows from the premise at n+1)
(assert (=> (forall ((k Int)) (=> (and (<= 0 k) (< k n)) (= (seq_at_String xs k) (seq_at_String ys k)))) (= (join_prefix xs sep n) (join_prefix ys sep n))))
(assert (not (= (join_prefix xs sep (+ n 1)) (join_prefix ys sep (+ n 1)))))
(check-sat)
`},
			{"lemma/join2", "join_prefix(xs,sep,2) == xs[0]+sep+xs[1] from join1 and joinN", joinDecls + "(assert (not (= (join_prefix xs sep (+ 1 1)) (str.++ (seq_at_String xs 0) sep (seq_at_String xs 1)))))\n(check-sat)\n"},
			{"lemma/join3", "join_prefix(xs,sep,3) == xs[0]+sep+xs[1]+sep+xs[2] from join1 and joinN", joinDecls + "(assert (not (= (join_prefix xs sep (+ (+ 1 1) 1)) (str.++ (seq_at_String xs 0) sep (seq_at_String xs 1) sep (seq_at_String xs 2)))))\n(check-sat)\n"},
		},
		"linestart": {
			{"lemma/ls-unique", "a line boundary q <= p with no newline in [q,p) is line_start(p): from ls-le, ls-boundary, ls-noline", `(set-logic ALL)
(declare-fun buf (Int) Int)
(declare-fun ls (Int) Int)
(assert (forall ((p Int)) (! (=> (>= p 0) (and (<= 0 (ls p)) (<= (ls p) p))) :pattern ((ls p)))))
(assert (forall ((p Int)) (! (=> (>= p 0) (or (= (ls p) 0) (= (buf (- (ls p) 1)) 10))) :pattern ((ls p)))))
(assert (forall ((p Int) (k Int)) (! (=> (and (>= p 0) (<= (ls p) k) (< k p)) (not (= (buf k) 10))) :pattern ((ls p) (buf k)))))
(declare-const p Int)
(declare-const q Int)
(assert (and (<= 0 q) (<= q p) (or (= q 0) (= (buf (- q 1)) 10))))
(assert (forall ((k Int)) (=> (and (<= q k) (< k p)) (not (= (buf k) 10)))))
(assert (not (= (ls p) q)))
(check-sat)
`},
		},
	}
	var res []lemmaQuery
	for _, w := range which {
		res = append(res, all[w]...)
	}
	return res
}

// glueLemmas returns a scan that discharges the given lemma families.
func glueLemmas(which ...string) func(*run) {
	return func(r *run) {
		dir, err := os.MkdirTemp("", "veriflemma")
		if err != nil {
			return
		}
		defer os.RemoveAll(dir)
		for i, q := range lemmaQueries(which...) {
			o := &fovc.Obligation{Name: q.name, Func: "lemma", Kind: "lemma", Clause: "glue lemma over spec functions: " + q.clause, SMT: q.smt, Bytes: len(q.smt)}
			file := filepath.Join(dir, fmt.Sprintf("l%d.smt2", i))
			os.WriteFile(file, []byte(q.smt), 0o644)
			for _, s := range [][]string{{"z3-new", "-T:20", file}, {"cvc5", "--tlimit=20000", "--strings-exp", file}, {"z3", "-T:20", file}} {
				out, _ := exec.Command(s[0], s[1:]...).CombinedOutput()
				first := strings.TrimSpace(strings.SplitN(string(out), "\n", 2)[0])
				if first == "unsat" || first == "sat" {
					o.Result = first
					o.Solver = s[0]
					break
				}
				o.Result = "unknown"
				o.Solver = s[0]
			}
			r.obls = append(r.obls, o)
		}
	}
}

// leanLemma (thorough tier): an inductive glue lemma machine-checked by Lean 4 (core library only).
func leanLemma(file, name, clause string) func(*run) {
	return func(r *run) {
		path := filepath.Join(verifDir, "lemmas", file)
		src, _ := os.ReadFile(path)
		o := &fovc.Obligation{Name: "lemma/" + name, Func: "lemma", Kind: "lemma", Clause: "glue lemma checked by Lean 4: " + clause, Solver: "lean-4", Bytes: len(src)}
		if strings.Contains(string(src), "sorry") || strings.Contains(string(src), "\naxiom ") || strings.Contains(string(src), "admit") {
			o.Result = "sat"
			o.Detail = "the Lean file contains sorry / axiom / admit"
			r.obls = append(r.obls, o)
			return
		}
		cmd := exec.Command("lean", path)
		out, err := cmd.CombinedOutput()
		if err == nil && !strings.Contains(string(out), "error") {
			o.Result = "unsat"
		} else {
			o.Result = "unknown"
			o.Detail = "lean: " + string(out)
		}
		r.obls = append(r.obls, o)
	}
}
