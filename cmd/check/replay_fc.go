package main

import (
	"context"
	"fmt"
	"os"
	"os/exec"
	"path/filepath"
	"strings"
	"time"

	"verif/fovc"
)

// buildFc builds the fc binary from /repo's working tree into a temporary directory.
func buildFc() (string, func(), error) {
	tmp, err := os.MkdirTemp("", "veriffc")
	if err != nil {
		return "", nil, err
	}
	bin := filepath.Join(tmp, "fc")
	cmd := exec.Command("go", "build", "-o", bin, ".")
	cmd.Dir = filepath.Join(repoDir, "fc")
	cmd.Env = append(os.Environ(), "GOFLAGS=-mod=mod", "GOPROXY=off", "GOSUMDB=off", "GOTOOLCHAIN=local")
	if out, err := cmd.CombinedOutput(); err != nil {
		os.RemoveAll(tmp)
		return "", nil, fmt.Errorf("building fc failed: %v\n%s", err, out)
	}
	return bin, func() { os.RemoveAll(tmp) }, nil
}

type fcRun struct {
	exit    int
	out     string
	timeout bool
}

func runFc(bin, dir string, args ...string) fcRun {
	ctx, cancel := context.WithTimeout(context.Background(), 10*time.Second)
	defer cancel()
	cmd := exec.CommandContext(ctx, bin, args...)
	cmd.Dir = dir
	out, err := cmd.CombinedOutput()
	r := fcRun{out: string(out)}
	if ctx.Err() != nil {
		r.timeout = true
		r.exit = -1
		return r
	}
	if err != nil {
		if ee, ok := err.(*exec.ExitError); ok {
			r.exit = ee.ExitCode()
		} else {
			r.exit = -2
		}
	}
	return r
}

const validFo = "package main\n\nlet add (a:int) (b:int) =\n  a + b\n\nlet main () =\n  add 1 2\n"

// replayDriver: output discipline of the fc driver (C16 / C07) on the real binary: complete output or
// a diagnostic, nothing written on error, .foi writes nothing, output naming.
func replayDriver(r *run, o *fovc.Obligation, model string) *replayResult {
	bin, cleanup, err := buildFc()
	if err != nil {
		return &replayResult{Text: err.Error()}
	}
	defer cleanup()
	var b strings.Builder
	b.WriteString("scenarios run with the fc binary built from /repo's working tree (the model says which clause fails; the scenario list covers each clause of the driver's contract):\n")
	type scen struct {
		name  string
		setup func(dir string) []string
		check func(dir string, fr fcRun) string
	}
	isFile := func(p string) bool { fi, err := os.Stat(p); return err == nil && fi.Mode().IsRegular() }
	scens := []scen{
		{"destination not writable (gen_x.go is a directory)", func(dir string) []string {
			os.WriteFile(filepath.Join(dir, "x.fo"), []byte(validFo), 0o644)
			os.Mkdir(filepath.Join(dir, "gen_x.go"), 0o755)
			return []string{"x.fo"}
		}, func(dir string, fr fcRun) string {
			if fr.exit == 0 && !isFile(filepath.Join(dir, "gen_x.go")) {
				return "fc exits 0 although gen_x.go was not written (C16: exits 0 only if every gen_*.go it was asked for has been completely written)"
			}
			return ""
		}},
		{"valid program", func(dir string) []string {
			os.WriteFile(filepath.Join(dir, "x.fo"), []byte(validFo), 0o644)
			return []string{"x.fo"}
		}, func(dir string, fr fcRun) string {
			if fr.exit != 0 || !isFile(filepath.Join(dir, "gen_x.go")) {
				return fmt.Sprintf("valid program: exit %d, gen_x.go written: %v, output: %s", fr.exit, isFile(filepath.Join(dir, "gen_x.go")), fr.out)
			}
			bs, _ := os.ReadFile(filepath.Join(dir, "gen_x.go"))
			if !strings.Contains(string(bs), "func add(") || !strings.Contains(string(bs), "func main()") {
				return "valid program: gen_x.go is incomplete: " + string(bs)
			}
			return ""
		}},
		{"valid program in a sub-directory (output naming)", func(dir string) []string {
			os.Mkdir(filepath.Join(dir, "sub"), 0o755)
			os.WriteFile(filepath.Join(dir, "sub", "y.fo"), []byte(validFo), 0o644)
			return []string{"sub/y.fo"}
		}, func(dir string, fr fcRun) string {
			if fr.exit != 0 || !isFile(filepath.Join(dir, "sub", "gen_y.go")) {
				return fmt.Sprintf("sub/y.fo: exit %d, sub/gen_y.go written: %v (C07: each X.fo yields gen_X.go next to it)", fr.exit, isFile(filepath.Join(dir, "sub", "gen_y.go")))
			}
			return ""
		}},
		{"parse error", func(dir string) []string {
			os.WriteFile(filepath.Join(dir, "x.fo"), []byte("package main\n\nlet f ( =\n"), 0o644)
			return []string{"x.fo"}
		}, func(dir string, fr fcRun) string {
			if fr.timeout {
				return "fc hangs on a parse error"
			}
			if fr.exit == 0 || isFile(filepath.Join(dir, "gen_x.go")) {
				return fmt.Sprintf("parse error: exit %d, gen_x.go written: %v (C16: non-zero exit, nothing written for the offending file)", fr.exit, isFile(filepath.Join(dir, "gen_x.go")))
			}
			return ""
		}},
		{"a byte the tokenizer has no rule for (panic with a non-string value)", func(dir string) []string {
			os.WriteFile(filepath.Join(dir, "x.fo"), []byte("package main\n\n# not folang\nlet f () = 1\n"), 0o644)
			return []string{"x.fo"}
		}, func(dir string, fr fcRun) string {
			if fr.exit == 0 || isFile(filepath.Join(dir, "gen_x.go")) || !strings.Contains(fr.out, "x.fo:") {
				return fmt.Sprintf("unknown byte: exit %d, gen_x.go written: %v, diagnostic naming the file printed: %v (C16: otherwise it exits non-zero after printing a diagnostic)", fr.exit, isFile(filepath.Join(dir, "gen_x.go")), strings.Contains(fr.out, "x.fo:"))
			}
			return ""
		}},
		{"file ending in an integer literal without newline", func(dir string) []string {
			os.WriteFile(filepath.Join(dir, "x.fo"), []byte("package main\n\nlet x = 12"), 0o644)
			return []string{"x.fo"}
		}, func(dir string, fr fcRun) string {
			if fr.timeout {
				return "fc hangs (no exit within 10s) on a file that ends in an integer literal"
			}
			return ""
		}},
		{".foi argument", func(dir string) []string {
			os.WriteFile(filepath.Join(dir, "p.foi"), []byte("package_info buf =\n  type Buffer\n"), 0o644)
			return []string{"p.foi"}
		}, func(dir string, fr fcRun) string {
			ents, _ := os.ReadDir(dir)
			if len(ents) != 1 {
				return fmt.Sprintf(".foi argument: %d files in the directory afterwards (C07: a .foi argument yields no file)", len(ents))
			}
			return ""
		}},
		{"missing input", func(dir string) []string { return []string{"nothere.fo"} }, func(dir string, fr fcRun) string {
			if fr.exit == 0 {
				return "missing input: fc exits 0"
			}
			return ""
		}},
	}
	res := &replayResult{}
	for _, s := range scens {
		dir, _ := os.MkdirTemp("", "verifscen")
		args := s.setup(dir)
		fr := runFc(bin, dir, args...)
		msg := s.check(dir, fr)
		os.RemoveAll(dir)
		if msg != "" {
			fmt.Fprintf(&b, "REPLAY-REPRODUCED scenario=%q command=fc %s\n  %s\n  exit=%d output=%q\n", s.name, strings.Join(args, " "), msg, fr.exit, strings.TrimSpace(fr.out))
			res.Reproduced = true
			break
		}
		fmt.Fprintf(&b, "scenario %q: behaves as specified (exit %d)\n", s.name, fr.exit)
	}
	if !res.Reproduced {
		b.WriteString("REPLAY-NOT-REPRODUCED\n")
	}
	res.Text = b.String()
	return res
}

// replayExhaustive (C09): enumerate unions with 1..3 cases x arm lists (subsets, orders, duplicates,
// payload forms) x with/without default, run the real fc binary on the generated Folang program and
// compare accept/reject with "covers every case or has a default".  Witness search: it runs only after
// an obligation of exaustiveCheck has failed, to attach a failing program to it.
func replayExhaustive(r *run, o *fovc.Obligation, model string) *replayResult {
	bin, cleanup, err := buildFc()
	if err != nil {
		return &replayResult{Text: err.Error()}
	}
	defer cleanup()
	caseNames := []string{"A", "B", "C"}
	payload := []bool{false, true, false}
	dir, _ := os.MkdirTemp("", "verifc09")
	defer os.RemoveAll(dir)
	tried := 0
	var b strings.Builder
	for n := 1; n <= 3; n++ {
		var unionDef strings.Builder
		unionDef.WriteString("package main\n\ntype U =\n")
		for i := 0; i < n; i++ {
			if payload[i] {
				fmt.Fprintf(&unionDef, "  | %s of int\n", caseNames[i])
			} else {
				fmt.Fprintf(&unionDef, "  | %s\n", caseNames[i])
			}
		}
		// arm lists: sequences over the n cases of length 1..n+1 (covers subsets, orders, duplicates)
		var seqs [][]int
		var gen func(cur []int, maxLen int)
		gen = func(cur []int, maxLen int) {
			if len(cur) > 0 {
				seqs = append(seqs, append([]int(nil), cur...))
			}
			if len(cur) == maxLen {
				return
			}
			for c := 0; c < n; c++ {
				gen(append(cur, c), maxLen)
			}
		}
		gen(nil, n+1)
		for _, seq := range seqs {
			for _, def := range []bool{false, true} {
				for _, bind := range []bool{false, true} {
					var src strings.Builder
					src.WriteString(unionDef.String())
					src.WriteString("\nlet f (u:U) =\n  match u with\n")
					covered := map[int]bool{}
					for k, c := range seq {
						covered[c] = true
						switch {
						case payload[c] && bind:
							fmt.Fprintf(&src, "  | %s x -> %d\n", caseNames[c], k)
						case payload[c]:
							fmt.Fprintf(&src, "  | %s _ -> %d\n", caseNames[c], k)
						default:
							fmt.Fprintf(&src, "  | %s -> %d\n", caseNames[c], k)
						}
					}
					if def {
						src.WriteString("  | _ -> 99\n")
					}
					wantAccept := def || len(covered) == n
					os.WriteFile(filepath.Join(dir, "m.fo"), []byte(src.String()), 0o644)
					os.Remove(filepath.Join(dir, "gen_m.go"))
					fr := runFc(bin, dir, "m.fo")
					tried++
					_, statErr := os.Stat(filepath.Join(dir, "gen_m.go"))
					accepted := fr.exit == 0 && statErr == nil
					if accepted != wantAccept || (!wantAccept && statErr == nil) {
						fmt.Fprintf(&b, "REPLAY-REPRODUCED source=witness-search tried=%d\n  fc %s this program although the match %s (exit %d, output %q):\n%s\n", tried,
							map[bool]string{true: "ACCEPTS", false: "REJECTS"}[accepted], map[bool]string{true: "covers every case or has a default", false: "has no default and omits a case"}[wantAccept], fr.exit, strings.TrimSpace(fr.out), indent(src.String()))
						return &replayResult{Text: b.String(), Reproduced: true}
					}
					if tried >= 400 {
						break
					}
				}
			}
		}
	}
	fmt.Fprintf(&b, "REPLAY-NOT-REPRODUCED tried=%d programs (unions of 1..3 cases)\n", tried)
	return &replayResult{Text: b.String()}
}

func indent(s string) string {
	return "    " + strings.ReplaceAll(strings.TrimRight(s, "\n"), "\n", "\n    ")
}
