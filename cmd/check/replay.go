package main

import (
	"context"
	"encoding/json"
	"fmt"
	"go/types"
	"os"
	"os/exec"
	"path/filepath"
	"regexp"
	"strconv"
	"strings"
	"time"

	"verif/fovc"
)

type replayResult struct {
	Text       string
	Reproduced bool
}

// concretise turns the counterexample of a failed obligation into a run of the real code, where a
// concretiser for that family of obligations exists (DESIGN §2.7).
func concretise(r *run, o *fovc.Obligation, model string) *replayResult {
	pkg := o.Func
	if i := strings.Index(pkg, "."); i >= 0 {
		pkg = pkg[:i]
	}
	switch {
	case pkg == "slice" && (r.prop == "C12" || r.prop == "C13"):
		return replaySlice(r, o, model)
	}
	if r.prop == "C18" {
		return replayBSM(r, o, model)
	}
	if r.prop == "C09" {
		return replayExhaustive(r, o, model)
	}
	if r.prop == "C08" && (pkg == "main" || pkg == "scan") {
		out, _ := runOverlayTestFiles(filepath.Join(repoDir, "fc"), map[string]string{"zz_verif_replay_c08_test.go": filepath.Join(verifDir, "replay/fc_c08_replay_test.go")}, "TestVerifReplayC08", []string{"VERIF_REPLAY_C08=1"}, 120*time.Second)
		txt, rep := filterReplayLines(out)
		if txt == "" {
			txt = out
		}
		return &replayResult{Text: "operator chains of up to 3 operators through the real parser and emitter, compared with a table-driven reference\ncommand: (cd /repo/fc && VERIF_REPLAY_C08=1 go test -overlay <zz_verif_replay_c08_test.go => /verif/replay/fc_c08_replay_test.go> -vet=off -run TestVerifReplayC08 -v .)\n" + txt, Reproduced: rep}
	}
	if f, ok := replayers[pkg]; ok {
		return f(r, o, model)
	}
	return nil
}

var replayers = map[string]func(*run, *fovc.Obligation, string) *replayResult{
	"frt":  replayFrt,
	"main": replayFcScanner,
}

// replayFcScanner: hand-written scanners of fc/wrapper.go.  The byte string and the position are read
// from a small-model query (buffer length bounded) with get-value.
func replayFcScanner(r *run, o *fovc.Obligation, model string) *replayResult {
	fn := strings.TrimPrefix(o.Func, "main.")
	if fn == "transpileOne" || fn == "transpileFiles" || fn == "OnParseError" {
		return replayDriver(r, o, model)
	}
	known := map[string]bool{"scanSpaceToken": true, "scanIdentifierToken": true, "scanIntImmToken": true, "scanStringLiteralToken": true, "scanRawStringLiteralToken": true,
		"scanTokenAt": true, "nextToken": true, "searchForward": true, "isStringAt": true, "reinterpretEscape": true, "PosToFilePosInfo": true, "ParseSInterP": true, "newTkz": true, "tkzNext": true}
	if !known[fn] {
		return nil
	}
	bufName := "p_buf"
	posName := "p_pos"
	switch fn {
	case "searchForward":
		posName = "p_start"
	case "isStringAt":
		posName = "p_at"
	case "PosToFilePosInfo":
		posName = "p_posAt"
	case "nextToken":
		posName = "(+ (main_Token_begin p_prev) (main_Token_len p_prev))"
	case "tkzNext":
		bufName = "(main_Tokenizer_buf p_tkz)"
		posName = "0"
	case "newTkz", "reinterpretEscape", "ParseSInterP":
		posName = "0"
	}
	have := "0"
	bufHex := ""
	pos := 0
	src := "no model (solver answered " + o.Result + "): witness search only"
	if o.Result == "sat" {
		terms := []string{"(b_len " + bufName + ")", posName}
		for k := 0; k < 8; k++ {
			terms = append(terms, fmt.Sprintf("(select (b_arr %s) %d)", bufName, k))
		}
		vals := fovc.GetValues(o, []string{fmt.Sprintf("(assert (<= (b_len %s) 8))", bufName)}, terms, 10)
		if vals != nil {
			n := smtInt(vals[terms[0]])
			pos = smtInt(vals[terms[1]])
			if n >= 0 && n <= 8 {
				var bs []byte
				for k := 0; k < n; k++ {
					bs = append(bs, byte(smtInt(vals[terms[2+k]])&255))
				}
				bufHex = fmt.Sprintf("%x", bs)
				have = "1"
				src = fmt.Sprintf("small-model query (same VC, buffer length <= 8): buf=%q pos=%d", string(bs), pos)
			}
		}
	}
	out, _ := runOverlayTest(filepath.Join(repoDir, "fc"), filepath.Join(verifDir, "replay/fc_replay_test.go"), "TestVerifReplay",
		[]string{"VERIF_REPLAY_FUNC=" + fn, "VERIF_REPLAY_BUF=" + bufHex, fmt.Sprintf("VERIF_REPLAY_POS=%d", pos), "VERIF_REPLAY_HAVEMODEL=" + have}, 120*time.Second)
	txt, rep := filterReplayLines(out)
	if txt == "" {
		txt = out
	}
	return &replayResult{Text: "input taken from: " + src + "\ncommand: (cd /repo/fc && VERIF_REPLAY_FUNC=" + fn + " VERIF_REPLAY_BUF=" + bufHex + " VERIF_REPLAY_POS=" + fmt.Sprint(pos) + " VERIF_REPLAY_HAVEMODEL=" + have + " go test -overlay <zz_verif_replay_test.go => /verif/replay/fc_replay_test.go> -vet=off -run TestVerifReplay -v .)\n" + txt, Reproduced: rep}
}

var reKind = regexp.MustCompile(`\(define-fun reflect_kind \(\(x!0 Reflect_Value\)\) Int\s+(\(- \d+\)|\d+)\)`)
var reKindIte = regexp.MustCompile(`reflect_kind[^\n]*\n?[^\n]*?(\d+)\)`)

func filterReplayLines(out string) (string, bool) {
	var b strings.Builder
	rep := false
	for _, l := range strings.Split(out, "\n") {
		if strings.HasPrefix(l, "REPLAY-") || strings.HasPrefix(l, "  ") {
			b.WriteString(l + "\n")
		}
		if strings.HasPrefix(l, "REPLAY-REPRODUCED") {
			rep = true
		}
	}
	return b.String(), rep
}

// multi-file overlay variant
func runOverlayTestFiles(dir string, files map[string]string, runName string, env []string, timeout time.Duration) (string, error) {
	tmp, err := os.MkdirTemp("", "verifreplay")
	if err != nil {
		return "", err
	}
	defer os.RemoveAll(tmp)
	rep := map[string]string{}
	for name, src := range files {
		rep[filepath.Join(dir, name)] = src
	}
	b, _ := json.Marshal(map[string]map[string]string{"Replace": rep})
	ovf := filepath.Join(tmp, "ov.json")
	os.WriteFile(ovf, b, 0o644)
	ctx, cancel := context.WithTimeout(context.Background(), timeout+30*time.Second)
	defer cancel()
	cmd := exec.CommandContext(ctx, "go", "test", "-overlay="+ovf, "-vet=off", "-count=1", fmt.Sprintf("-timeout=%ds", int(timeout.Seconds())), "-run", runName, "-v", ".")
	cmd.Dir = dir
	cmd.Env = append(os.Environ(), "GOFLAGS=-mod=mod", "GOPROXY=off", "GOSUMDB=off", "GOTOOLCHAIN=local")
	cmd.Env = append(cmd.Env, env...)
	out, err := cmd.CombinedOutput()
	return string(out), err
}

func replayFrt(r *run, o *fovc.Obligation, model string) *replayResult {
	files := map[string]string{
		"zz_verif_replay_test.go":      filepath.Join(verifDir, "replay/frt_replay_test.go"),
		"zz_verif_replay_more_test.go": filepath.Join(verifDir, "replay/frt_replay_more_test.go"),
	}
	switch o.Func {
	case "frt.OpEqual", "frt.OpNotEqual":
		what := "opequal-value"
		src := "solver model: strict_eq(e1,e2) differs from struct_eq(e1,e2) (nil vs empty slice) or the result is negated"
		if strings.Contains(o.Kind, "panic") {
			what = "opequal-panic"
			src = "solver model: has_unexported(e1) with no Exporter option passed"
		}
		out, _ := runOverlayTestFiles(filepath.Join(repoDir, "pkg/frt"), files, "TestVerifReplay", []string{"VERIF_REPLAY_WHAT=" + what}, 60*time.Second)
		txt, rep := filterReplayLines(out)
		if txt == "" {
			txt = out
		}
		return &replayResult{Text: "input class taken from: " + src + "; concrete values found by enumerating the first-order universe of /verif/replay/frt_replay_more_test.go\ncommand: (cd /repo/pkg/frt && VERIF_REPLAY_WHAT=" + what + " go test -overlay <frt_replay_*_test.go> -vet=off -run TestVerifReplay -v .)\n" + txt, Reproduced: rep}
	case "frt.toS", "frt.SInterP":
		kind := 7
		src := "default"
		// the model interprets reflect_kind; take its value at the argument (constant or else-branch value)
		if i := strings.Index(model, "(define-fun reflect_kind"); i >= 0 {
			seg := model[i:]
			if j := strings.Index(seg, "\n  (define-fun"); j > 0 {
				seg = seg[:j]
			}
			nums := regexp.MustCompile(`\b(\d+)\b`).FindAllString(strings.SplitN(seg, "Int", 2)[1], -1)
			if len(nums) > 0 {
				kind, _ = strconv.Atoi(nums[len(nums)-1])
				src = "solver model: reflect_kind(valueof(arg)) = " + nums[len(nums)-1]
			}
		}
		out, _ := runOverlayTestFiles(filepath.Join(repoDir, "pkg/frt"), files, "TestVerifReplay", []string{"VERIF_REPLAY_WHAT=toS", fmt.Sprintf("VERIF_REPLAY_KIND=%d", kind)}, 60*time.Second)
		txt, rep := filterReplayLines(out)
		if txt == "" {
			txt = out
		}
		return &replayResult{Text: "input taken from: " + src + "\ncommand: (cd /repo/pkg/frt && VERIF_REPLAY_WHAT=toS VERIF_REPLAY_KIND=" + fmt.Sprint(kind) + " go test -overlay <frt_replay_test.go> -vet=off -run TestVerifReplay -v .)\n" + txt, Reproduced: rep}
	}
	return nil
}

var reDefSlice = regexp.MustCompile(`\(define-fun (p_\w+) \(\) Slice\s+\(mk_slice (\(- \d+\)|\d+) (\(- \d+\)|\d+) (\(- \d+\)|\d+) (\(- \d+\)|\d+)\)\)`)
var reDefInt = regexp.MustCompile(`\(define-fun (p_\w+) \(\) Int\s+(\(- \d+\)|\d+)\)`)

func smtInt(s string) int {
	s = strings.TrimSpace(s)
	neg := false
	if strings.HasPrefix(s, "(-") {
		neg = true
		s = strings.Trim(s[2:], " )")
	}
	n, err := strconv.Atoi(s)
	if err != nil {
		n = 1 << 30
	}
	if neg {
		return -n
	}
	return n
}

// runOverlayTest runs an in-package test injected with -overlay in dir (a package of /repo).
func runOverlayTest(dir, testFile, runName string, env []string, timeout time.Duration) (string, error) {
	tmp, err := os.MkdirTemp("", "verifreplay")
	if err != nil {
		return "", err
	}
	defer os.RemoveAll(tmp)
	ov := map[string]map[string]string{"Replace": {filepath.Join(dir, "zz_verif_replay_test.go"): testFile}}
	b, _ := json.Marshal(ov)
	ovf := filepath.Join(tmp, "ov.json")
	os.WriteFile(ovf, b, 0o644)
	ctx, cancel := context.WithTimeout(context.Background(), timeout+30*time.Second)
	defer cancel()
	cmd := exec.CommandContext(ctx, "go", "test", "-overlay="+ovf, "-vet=off", "-count=1", fmt.Sprintf("-timeout=%ds", int(timeout.Seconds())), "-run", runName, "-v", ".")
	cmd.Dir = dir
	cmd.Env = append(os.Environ(), "GOFLAGS=-mod=mod", "GOPROXY=off", "GOSUMDB=off", "GOTOOLCHAIN=local")
	cmd.Env = append(cmd.Env, env...)
	out, err := cmd.CombinedOutput()
	return string(out), err
}

func replaySlice(r *run, o *fovc.Obligation, model string) *replayResult {
	fname := strings.TrimPrefix(o.Func, "slice.")
	ref := r.eng.FuncDecl[o.Func]
	if ref == nil {
		return nil
	}
	// small-model query: same VC with the sizes of the inputs bounded
	sig := ref.Obj.Type().(*types.Signature)
	var bounds []string
	var sliceParams, intParams []string
	for i := 0; i < sig.Params().Len(); i++ {
		p := sig.Params().At(i)
		switch p.Type().Underlying().(type) {
		case *types.Slice:
			n := "p_" + p.Name()
			sliceParams = append(sliceParams, n)
			bounds = append(bounds, fmt.Sprintf("(assert (and (<= (s_len %s) 4) (<= (s_cap %s) 6) (<= (s_off %s) 1)))", n, n, n))
		case *types.Basic:
			if p.Type().Underlying().(*types.Basic).Info()&types.IsInteger != 0 {
				n := "p_" + p.Name()
				intParams = append(intParams, n)
				bounds = append(bounds, fmt.Sprintf("(assert (and (<= (- 2) %s) (<= %s 6)))", n, n))
			}
		}
	}
	small := ""
	if o.Result == "sat" {
		small = fovc.GetModelWith(o, bounds, 10)
	}
	src := "small-model query (same VC, input sizes bounded)"
	if small == "" {
		small = model
		src = "solver model (sizes clamped)"
	}
	c := map[string]any{"func": fname, "len1": 3, "cap1": 4, "off1": 0, "len2": 2, "cap2": 2, "off2": 0, "n": 1, "cb": 0, "pat": 0}
	clamp := func(v, lo, hi int) int {
		if v < lo {
			return lo
		}
		if v > hi {
			return hi
		}
		return v
	}
	hdr := map[string][4]int{}
	for _, m := range reDefSlice.FindAllStringSubmatch(small, -1) {
		hdr[m[1]] = [4]int{smtInt(m[2]), smtInt(m[3]), smtInt(m[4]), smtInt(m[5])}
	}
	ints := map[string]int{}
	for _, m := range reDefInt.FindAllStringSubmatch(small, -1) {
		ints[m[1]] = smtInt(m[2])
	}
	for i, sp := range sliceParams {
		h, ok := hdr[sp]
		if !ok {
			continue
		}
		ln := clamp(h[2], 0, 5)
		spare := clamp(h[3]-h[2], 0, 3)
		off := clamp(h[1], 0, 2)
		if i == 0 {
			c["len1"], c["cap1"], c["off1"] = ln, ln+spare, off
		} else if i == 1 {
			c["len2"], c["cap2"], c["off2"] = ln, ln+spare, off
		}
	}
	if len(intParams) > 0 {
		if v, ok := ints[intParams[0]]; ok {
			c["n"] = clamp(v, -2, 7)
		}
	}
	cj, _ := json.Marshal(c)
	out, err := runOverlayTest(filepath.Join(repoDir, "pkg/slice"), filepath.Join(verifDir, "replay/slice_replay_test.go"), "TestVerifReplay", []string{"VERIF_REPLAY_CASE=" + string(cj)}, 60*time.Second)
	res := &replayResult{}
	var b strings.Builder
	fmt.Fprintf(&b, "input taken from: %s\ncase: %s\ncommand: (cd /repo/pkg/slice && VERIF_REPLAY_CASE='%s' go test -overlay <zz_verif_replay_test.go => /verif/replay/slice_replay_test.go> -vet=off -count=1 -run TestVerifReplay -v .)\n", src, cj, cj)
	for _, l := range strings.Split(out, "\n") {
		if strings.HasPrefix(l, "REPLAY-") || strings.HasPrefix(l, "  ") {
			b.WriteString(l + "\n")
		}
		if strings.HasPrefix(l, "REPLAY-REPRODUCED") {
			res.Reproduced = true
		}
	}
	if err != nil && !res.Reproduced {
		b.WriteString("go test output:\n" + out)
	}
	res.Text = b.String()
	return res
}

// replayBSM: build_sample_md.  The list line is read from the model (p_oneline) when the failed
// obligation belongs to convOne; the harness then runs the real tool on real files.
func replayBSM(r *run, o *fovc.Obligation, model string) *replayResult {
	lineHex := ""
	src := "no model value usable: witness search over boundary list files"
	if o.Result == "sat" && strings.HasPrefix(o.Func, "main.convOne") {
		vals := fovc.GetValues(o, []string{"(assert (<= (str.len p_oneline) 12))"}, []string{"p_oneline"}, 10)
		if v, ok := vals["p_oneline"]; ok {
			if sv, ok2 := fovc.SMTStringValue(v); ok2 {
				lineHex = fmt.Sprintf("%x", sv)
				src = fmt.Sprintf("small-model query: oneline=%q", sv)
			}
		}
	}
	out, _ := runOverlayTest(filepath.Join(repoDir, "cmd/build_sample_md"), filepath.Join(verifDir, "replay/bsm_replay_test.go"), "TestVerifReplay",
		[]string{"VERIF_REPLAY_C18=1", "VERIF_REPLAY_LINE=" + lineHex}, 60*time.Second)
	txt, rep := filterReplayLines(out)
	if txt == "" {
		txt = out
	}
	return &replayResult{Text: "input taken from: " + src + "\ncommand: (cd /repo/cmd/build_sample_md && VERIF_REPLAY_C18=1 VERIF_REPLAY_LINE=" + lineHex + " go test -overlay <zz_verif_replay_test.go => /verif/replay/bsm_replay_test.go> -vet=off -run TestVerifReplay -v .)\n" + txt, Reproduced: rep}
}
