package main

// Per-property configuration: which modules of /repo hold the functions under contract, which
// clauses of the statement the obligations decide, and the closed-world scans that go with them.
var props = map[string]propCfg{
	"C12": {
		Modules: []string{"pkg/slice"},
		Decided: []string{
			"strong frame on every function of package slice: no cell of any backing array that existed before the call is written, for all lengths, offsets, capacities and aliasing of the arguments",
			"write discipline: every store (in-place append, sort) goes into an array allocated by the running call itself",
		},
		NotDecided: []string{"the history lemma (per-call frame implies every value keeps its contents over any call sequence) is an induction over histories stated in DESIGN §4 C12, not machine-checked by the SMT back end"},
	},
	"C13": {
		Modules: []string{"pkg/slice"},
		Decided: []string{"functional postcondition of every function of package slice over the abstract view (len, element at i), inside its documented domain, for all lengths, all element types and all total callbacks; left-to-right callback order via ghost call traces"},
	},
}
