package main

// Per-property configuration: which modules of /repo hold the functions under contract, which
// clauses of the statement the obligations decide, and the closed-world scans that go with them.
var props = map[string]propCfg{
	"C12": {
		Modules: []string{"pkg/slice"},
		Bounded: []func(*run){boundedExternals("TestAppend", "TestSortFunc"), leanLemma("C12History.lean", "C12-history", "per-call strong frame + monotone allocation counter imply that every slice value keeps its contents at every later time (induction over histories)")},
		Decided: []string{
			"strong frame on every function of package slice: no cell of any backing array that existed before the call is written, for all lengths, offsets, capacities and aliasing of the arguments",
			"write discipline: every store (in-place append, sort) goes into an array allocated by the running call itself",
		},
		NotDecided: []string{"the history lemma (per-call frame implies every value keeps its contents over any call sequence) is an induction over histories: machine-checked by Lean 4 in the thorough tier (lemmas/C12History.lean), an argument in DESIGN §4 C12 in the quick tier"},
	},
	"C13": {
		Modules: []string{"pkg/slice"},
		Bounded: []func(*run){boundedExternals("TestAppend", "TestSortFunc")},
		Decided: []string{"functional postcondition of every function of package slice over the abstract view (len, element at i), inside its documented domain, for all lengths, all element types and all total callbacks; left-to-right callback order via ghost call traces"},
	},
	"C14": {
		Modules: []string{"pkg/dict", "pkg/strings", "pkg/buf", "pkg/frt"},
		Bounded: []func(*run){boundedExternals("TestStrings", "TestFmtFragment", "TestReflect", "TestBufferAndMap")},
		Decided: []string{
			"dict: finite-map contracts (Add overwrites one key and nothing else, TryFind/ContainsKey/Item read the map, Keys/Values/KVs enumerate each entry exactly once, ToDict keeps the last value per key; every other map unchanged)",
			"strings: each wrapper equals the SMT-string definition of its Go counterpart with the pipeline argument order; Concat = join",
			"buf: writes accumulate in order; frt: Pipe/IfElse/IfElseUnit/IfOnly call traces, tuple inverse laws, formatting helpers route to fmt in argument order, toS never panics",
		},
		Scans: []func(*run){glueLemmas("join")},
	},
	"C10": {
		Modules: []string{"pkg/frt", "fc"},
		Decided: []string{
			"OpEqual never panics and returns struct_eq (nil slice == empty slice, field-name capitalisation irrelevant), OpNotEqual is its negation - proved from the options actually passed to cmp.Equal against the ASSUMED contract of go-cmp (specs/externals.spec)",
			"reflexivity, symmetry and transitivity are properties of the specification function struct_eq (axioms of the spec), carried over to OpEqual by result == struct_eq",
		},
		NotDecided: []string{"that go-cmp itself satisfies the assumed contract: validated only by the bounded differential run of the thorough tier (labelled bounded)"},
		Bounded:    []func(*run){boundedOpEqual, boundedExternals("TestReflect")},
		Scans:      []func(*run){scanBinOpTable},
	},
	"C16": {
		Modules: []string{"fc", "pkg/sys"},
		Bounded: []func(*run){boundedExternals("TestFiles", "TestStrings")},
		Decided: []string{
			"every scanner / tokenizer loop of wrapper.go terminates (variant) and makes progress on every byte string; token extents stay inside the buffer",
			"output discipline of transpileOne: a normal return for X.fo means gen_X.go holds the complete emitted text; any abnormal termination (panic, or the deferred OnParseError diagnostic + exit 1) leaves the file system untouched; a .foi argument writes nothing",
			"closed-world scan: no function of fc or pkg/* other than transpileOne (through sys.WriteFile) writes, creates, renames or removes files",
			"token stream: psNext (tkzNext executed in place, nextToken through its contract) keeps the liveness invariant (current token inside the buffer, every token but EOF at least one byte long) and strictly advances unless at EOF; psSkipEOL / psNextNOL / tkzNextNOL terminate (variant: bytes left) and return a state that is not at an end-of-line token",
			"the type parser terminates on every token stream: parseType / parseTypeArrows / parseElemType / parseTermType / parseAtomType / parseTypeList / mightParseSpecifiedTypeList / parseFullName / parseFieldDefs carry the variant 8*bytes-left + rank, checked at every call inside the group including the calls through the function-typed parameter, and the ParseList2 loop of parseElemType has the loop variant bytes-left (each element parser strictly advances)",
			"forward-declaration retry transTRecurse terminates (variant 1001 - count)",
			"the traversals of type expressions collectTVarFTypeWithSet and transTVFTypeWithSet (with transRecType and every slice.Map / slice.Collect executed in place) terminate also on recursive union types: lexicographic variant (registered type names not yet visited, structural size), checked at all 15 recursion sites - under the carve-out of known finding F11 (no record type contains itself)",
			"the generic list loops ParseList / ParseList2 terminate (variant: bytes left) whenever the element parser strictly advances on every live state that is not at end of input, the separator step does not go back and end of input ends the list; an EOF token exists only at the end of the buffer (scanTokenAt, nextToken)",
		},
		Scans:      []func(*run){scanFsWrites},
		NotDecided: []string{"termination of the rest of the recursive-descent parser (expressions, statements, definitions) and of unification (updateResolver); resolveOneTypeVar terminates under the carve-out of known finding F10 and the assumed clause that transTVFType calls its parameter only on the type variables it reaches", "a type factory stored in the scope (a function value) is assumed to return or panic"},
	},
	"C15": {
		Modules: []string{"fc"},
		Bounded: []func(*run){boundedExternals("TestStrings", "TestFmtFragment")},
		Decided: []string{
			"printer half: FTypeToGo and its helpers (funcTypeToGo, fSliceToGo, fTupleToGo, fpToGo, recordTypeToGo, fUnionToGo, tArgsToGo, fargs, freturn) equal the documented type mapping go_type (specs/types.spec) for every FType value",
			"forward-declaration retry (transTRecurse): the translation is applied at least once, each application feeds on the previous result, the value returned is the last result and contains no placeholder; the recursion terminates (variant 1001 - count)",
			"parser half: every (state, FType) pair returned by parseType / parseTypeArrows / parseElemType / parseTermType / parseAtomType is a derivation of the documented grammar TYPE = ELEM ('->' ELEM)*, ELEM = TERM ('*' TERM)*, TERM = '[' ']' TERM | ATOM, ATOM = '(' ')' | '(' TYPE ')' | base name (specs/grammar.spec, Horn clauses over uninterpreted relations): [] binds tighter than *, * tighter than ->, one element is the element itself, several are a tuple / a function type over all of them, parentheses only group, () is unit, base names map to their base types; for token streams of any length and nesting depth",
		},
		NotDecided:   []string{"named types: WHICH FType a user / external type name denotes (the type factory stored in the scope is a function value: calling it is modelled as returning anything) is not decided - the grammar decides only the tokens a named atom spans (FULLNAME, then '<' TYPE (',' TYPE)* '>' only if the name resolves to a type factory) and the argument list handed to the factory; the bounded enumeration (depth 2, 3 syntactic positions, incl. generic names) covers the rest, labelled bounded", "generic user types (GenRecordType / GenUnionType instantiation) and the resolution pass that replaces forward-declaration placeholders (transTVByTDCtx, resolveFwrdDecl) beyond transTRecurse itself", "that the five syntactic positions all call parseType (read from the call sites; the bounded enumeration exercises three of them)"},
		BoundedQuick: []func(*run){boundedC15Parser},
		Scans:        []func(*run){glueLemmas("join")},
	},
	"C18": {
		Modules: []string{"cmd/build_sample_md"},
		Bounded: []func(*run){boundedExternals("TestStrings", "TestFiles", "TestBufferAndMap")},
		Decided: []string{
			"convOne returns exactly the documented section (title after the first blank or the file name, content verbatim in a code fence, link to gen_<base>.go) and panics exactly when the listed file cannot be read",
			"processListFile writes header + sections joined by newline, one section per non-empty line in list order, to Join(Dir(list), dest); every other path is unchanged; any panic (unreadable list or listed file) leaves the file system untouched (no partial README)",
		},
		NotDecided: []string{"main's argument handling beyond routing one argument to processListFile(\"README.md\", arg)", "the result of the final write is ignored by the tool (observation): a failed write returns normally with nothing written"},
		Scans:      []func(*run){glueLemmas("join")},
	},
	"C07": {
		Modules: []string{"fc", "pkg/sys"},
		Bounded: []func(*run){boundedExternals("TestFiles", "TestStrings")},
		Decided: []string{
			"output naming: the file written for X.fo is Join(Dir(X.fo), \"gen_\" + base-without-.fo + \".go\"); a .foi argument writes nothing and the returned parse state is the one after parsing it (transpileOne)",
			"per-let reset: psResetTmpCtx zeroes the temporary counter, replaces only the type-variable context and keeps every other component; parseRootLet uses its incoming state only as the argument of psResetTmpCtx (syntactic obligation)",
			"root guard: parseRootOneStmt returns normally only if the root scope is the only scope",
		},
		NotDecided: []string{"the main clause - inserting, deleting or reordering unrelated top-level definitions, or splitting into files, leaves a definition's translation unchanged - is a non-interference property of the whole parser over scopes and the global info tables; it is NOT decided by these obligations", "known finding F8 (two record types with the same field names) is a counterexample to the main clause; it is listed under C05"},
		Scans:      []func(*run){scanRootLetUsesResetOnly},
	},
	"C09": {
		Modules: []string{"fc"},
		Bounded: []func(*run){boundedExternals("TestBufferAndMap")},
		Decided: []string{
			"exaustiveCheck(ttype, arms): when ttype is a union, it panics (the diagnostic path) if and only if the union's info is missing or some case of the union is named by no arm - for unions of any size, any arm order, duplicate arms, arms naming unknown cases",
			"routing (parseURules): a match returned without a default arm has been through exaustiveCheck with exactly its arms (so it covers every case); a default arm is accepted only when the next arm is inside the enclosing offside and is `| _`",
			"arms (parseUnionMatchRules, ParseList2 executed in place): the arm list goes on exactly while the next token after line breaks is a `|` inside the enclosing offside line that does not start the default arm - tested on the state reached; at least one arm; the offside stack is kept",
			"an arm that binds its payload is accepted only if the type of the matched expression is a union (parseUnionMatchRule: failing cast = diagnostic)",
			"case lists: instantiating a union (GenUnionType, tryUniFacToUniType) registers every case of the definition, names in declaration order, for exactly the type it returns; the table key of a union / record type (uniToKey, rtToKey, encodedKey) is its name and all its type arguments in order",
		},
		NotDecided: []string{"that a match without binding arms whose target is not yet known to be a union is checked later (exaustiveCheck does nothing for a non-union type; read, not proved)", "the registered payload types (substitution of type parameters, tpreplace) and the link between the abstract table view has_uniinfo / uniinfo and the dictionary behind lookupUniInfo / updateUniInfo (assumed)", "the emitted 'never reached' panic being unreachable in accepted programs (a C01-level consequence)"},
	},
	"C08": {
		Modules: []string{"fc"},
		Decided: []string{
			"the operator table is exactly the published one (scan of the binOpMap literal: 13 operators, group order, equal rank inside a group, Go spellings, = and <> through frt.OpEqual / frt.OpNotEqual; never written)",
			"every node the binary-operator factory builds has the accumulated expression as its left and the new operand as its right operand (newBinOpCall, newBinOpNormal, newEqNeq, newPipeCall*), and newBinOpCall is called only from parseBinAfter with (cur, rhs)",
			"a binary node is always emitted parenthesised with its operands in order (binOpToGo), so the grouping of the tree is the parenthesisation of the output",
			"precedence climbing for chains of ANY length (parseBinAfter / parseExprWithPrec / parseExpr, ghost ranks + ghost flag wg): every node is built with rank(left) >= rank(op) and rank(right) > rank(op) - the published table with left association -, each call returns an expression of rank >= its minimum and stops before an operator of rank >= its minimum; recursion and the function-typed parameter are discharged modularly (the function's own contract is the induction hypothesis)",
			"operands (parseAtom): a literal token is its literal node, () is unit, parentheses only group - the expression parsed inside is returned unchanged and the closing parenthesis is required -; a term ends (isEndOfTerm) exactly at EOF, a line end, ; } ) ] with then else , or where a binary operator follows, also at the beginning of the next line; an application list has at least one atom (parseAtomList)",
		},
		NotDecided: []string{"that operands appear in source order without loss (needs a token-list ghost); prefix not applies to the following application and an application's head and arguments (parseTerm is an abstract operand of rank 100 here; scan: its not-operand is a term)"},
		Scans:      []func(*run){scanBinOpTable, scanBinOpCallSites, scanNotOperand},
	},
	"C05": {
		Modules: []string{"fc", "pkg/sys"},
		Bounded: []func(*run){boundedExternals("TestBufferAndMap", "TestFiles")},
		Decided: []string{
			"the output file is a function of the text handed to sys.WriteFile alone: after a successful write the file's content is exactly that text (no remainder of an earlier file), after a failed one nothing changed",
			"closed-world scan: fc and pkg/* contain no goroutines, select, time, math/rand, environment reads, %p or unsafe, and every range over a map and every call of dict.Keys / Values / KVs is one of the listed consumer sites",
			"each consumer of a dictionary enumeration has an order-free postcondition that determines its observable result: exaustiveCheck (accept/reject by the C09 iff), eqsUnion (exactly the union of the two key sets), eqsItems / rsRegisterNewEI (every member registered to the same info, nothing else changed), scLookupRecFacCur (the matching factory - under the carve-out of known finding F8)",
			"the dict functions themselves: Keys / Values / KVs return each entry exactly once (order unspecified)",
		},
		NotDecided: []string{"piRegAll's registration through closures stored in dictionaries (its keys are distinct by construction; read, not proved)", "the text of the non-exhaustive-match diagnostic names an order-dependent case (outside the statement: output files and the accept/reject decision)"},
		Scans:      []func(*run){scanNondeterminism},
	},
	"C06": {
		Modules: []string{"fc"},
		Decided: []string{
			"L1 column invariant (newTkz, tkzNext, all byte strings): the column the offside rule compares is the byte offset of the token in its physical line - under the carve-out of known finding F9 (no newline inside the skipped region or the current token)",
			"L2 (part): a SPACE token covers blanks and comments only as far as its extent/progress contract says; nextToken returns the first non-SPACE token at or after the end of the previous one",
			"L3 offside primitives decide by comparing columns only: insideOffside = col >= top, isEndOfBlock <= col < top, psPushOffside panics iff top >= col and pushes exactly col, psPopOffside pops exactly one - so any strictly monotone re-indentation leaves every decision unchanged",
			"L4 closed set: Tokenizer.col is read only by psCurCol and tkzNext, offsideCol only by the offside primitives and the parse-state constructors (scan)",
			"L5 line breaks where the grammar allows them: psSkipEOL is verified (returns a state that is not at an end-of-line token, identity when there is none) and the parsers of a let's right-hand side (parseLetOneVarDef, parseLetDestVarDef), of a function let's body (parseLetFuncDef), of a match arm's body (parseUnionMatchRule, parseStringMatchRule, parseStringVarRule, parseDefaultMatchRule) and of the blocks of a multi-line if (parseIfAfterIfExpr) are started exactly once per construct at a token that is not an end-of-line - so same line or next line cannot differ for them; an operator on the next line continues the expression (C08's stop / nextfits over skipeol)",
			"L6 match arms: the arm list of a union match ends exactly at the first `|` left of the enclosing offside line (parseUnionMatchRules)",
		},
		NotDecided: []string{"the remaining grammar-level placements (record / union definitions over several lines, fun, field initialisers, string-match arm lists, blank lines and comments between root statements) and the statement that re-indenting a whole block leaves the parse unchanged (a relational property of the whole parser; L3 gives it for each single decision)"},
		Scans:      []func(*run){glueLemmas("linestart"), scanColumnReaders},
	},
	"C11": {
		Modules: []string{"fc", "pkg/frt"},
		Bounded: []func(*run){boundedExternals("TestGoLiteralSyntax", "TestFmtFragment", "TestReflect")},
		Decided: []string{
			"\"...\" literals: the token ends at the first unescaped quote (backslash parity) and its value is exactly the bytes between the quotes, so the emitted Go literal is byte-identical to the Folang literal and Go's reading of the escapes is the documented one",
			"`...` literals: the token ends at the first backtick and every character of the body is re-escaped for a Go interpreted literal (backslash, quote and newline escaped, every other byte itself)",
			"$-literals: ParseSInterP translates the body piece by piece: \\{ and \\} to the brace, other escapes passed through, {name} to %s with the name appended to the variable list in order, % to %%, every other byte itself",
			"emitters: a string literal is emitted as \" + body + \", an interpolated literal as frt.SInterP(\"format\", vars...); frt.SInterP / toS render arguments as the statement says (C14 contracts)",
		},
		NotDecided: []string{"that Go's string-literal syntax un-escapes what the raw-string re-escaping produces, and that fmt.Sprintf substitutes %s / %% as assumed: properties of Go, stated as assumptions, not proved", "a raw newline inside \"...\" (Go rejects the emitted literal): read as outside the literal alphabet of the statement"},
		Scans:      []func(*run){glueLemmas("join")},
	},
	"C03": {
		Modules: []string{"fc"},
		Bounded: []func(*run){boundedExternals("TestStrings", "TestFmtFragment")},
		Decided: []string{
			"naming: unionCSName = U_C, csConstructorName = New_U_C, piFullName = pkg.name unless the package is _",
			"union: interface U with marker U_Union() (udUnionDef), struct U_C with payload field Value (udCSDef), constructor = package var when the case has no payload and U no type parameter, a func otherwise (csIsVar, csConstruct, csConstructVar, csConstructFunc)",
			"record: struct with the same field names and mapped field types in order (rdfToGo, rdffieldToGo); tuples frt.NewTupleN(...) (tupleToGo)",
			"top-level let: package func with name, type parameters, parameters in order and result type (rfdToGo, lfdParamsToGo, paramsToGo) or package var (rootVarDefToGo)",
			"calls: the declared name with explicit type arguments if given (varRefToGo), all arguments in source order, a lone unit argument dropped (fcFullApplyGo, fcUnitArgOnly); external types registered under their qualified name (piRegEType)",
			"record literal Name[targs]{f1: e1, f2: e2} with the fields in the order of the literal (rgToGo, rgFVToGo, frStructName); a whole union definition = interface, marker methods, Stringer methods, then per case the struct and its constructor, every part a function of the definition alone, cases in declaration order (udfToGo, udCSConformMethods, udCSStringerMethods, caseToGo, dsToGo = record_text / union_text)",
			"parser half of record definitions: the field list is exactly the fields written, in order, with or without a trailing `;` (parseFieldDef, parseFieldDefs against the grammar relations Rfield / Rfields); a reference built by GenFuncVar keeps the explicit type arguments it was given",
			"partial application (fcPartialApplyGo): a closure whose parameters are _r0.._rk typed by the missing parameter types, calling the callee (explicit type arguments kept) with the supplied arguments first, in source order, then _r0.._rk",
		},
		NotDecided: []string{"that the emitted text compiles together with hand-written client Go (needs the Go type checker)", "csRegisterCtor and the registration of the types of a running `type ... and ...` group (psRegRecDefToTDCtx, psRegUdToTDCtx) store closures in scope dictionaries: not under contract", "a match on a generic union emits case U_C without type arguments (observation, a C01-level defect)"},
		Scans:      []func(*run){glueLemmas("join")},
	},
}
