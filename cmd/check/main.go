// check: per-property driver.  Loads /repo's working tree (build tag verif), regenerates every
// obligation of the property from the contracts, races the SMT solvers, replays counterexamples on
// the real code, writes evidence and prints VIOLATION / KNOWN-FINDING lines (DESIGN §2.8, §8).
package main

import (
	"encoding/json"
	"flag"
	"fmt"
	"os"
	"path/filepath"
	"sort"
	"strconv"
	"strings"
	"time"

	"verif/fovc"
)

const verifDir = "/verif"

var repoDir = "/repo"

type propCfg struct {
	Modules      []string
	Decided      []string // clauses of the statement decided by the obligations
	NotDecided   []string
	Scans        []func(*run) // closed-world scans and other syntactic obligations
	Bounded      []func(*run) // bounded stand-ins (thorough tier), never counted as proved
	BoundedQuick []func(*run) // bounded stand-ins cheap enough for the quick tier as well
}

type run struct {
	prop     string
	tier     string
	seed     int
	eng      *fovc.Engine
	obls     []*fovc.Obligation
	funcs    []string
	depFuncs []string
	assumed  map[string]bool
	deps     map[string]bool
	notes    []string
	bounded  []map[string]any
	extraVio []violation
}

type violation struct {
	Obligation string
	Detail     string
	Replay     string
	Input      bool // a failing input was found and replayed on the real code
}

type knownFile struct {
	Findings []finding `json:"findings"`
	Fixed    []string  `json:"fixed"`
}

func main() {
	tier := flag.String("tier", "", "quick|thorough")
	dump := flag.String("dump", "", "keep SMT files in this directory")
	only := flag.String("func", "", "restrict to these function keys (debugging; evidence is not written)")
	verbose := flag.Bool("v", false, "print every obligation")
	model := flag.Bool("model", false, "print models of failed obligations")
	flag.Parse()
	if flag.NArg() < 1 {
		fmt.Println("usage: check <property-id> [--tier quick|thorough]")
		os.Exit(2)
	}
	if d := os.Getenv("VERIF_REPO"); d != "" {
		// self-test only: run the checks against a scratch copy of the repository (never used by the
		// registered commands, which always verify /repo itself)
		repoDir = d
	}
	prop := flag.Arg(0)
	// flags may follow the property id
	for i := 1; i < flag.NArg(); i++ {
		switch flag.Arg(i) {
		case "--tier", "-tier":
			if i+1 < flag.NArg() {
				*tier = flag.Arg(i + 1)
				i++
			}
		case "-v":
			*verbose = true
		}
	}
	if *tier == "" {
		*tier = os.Getenv("VERIF_TIER")
	}
	if *tier == "" {
		*tier = "quick"
	}
	seed := 0
	if s := os.Getenv("VERIF_SEED"); s != "" {
		seed, _ = strconv.Atoi(s)
	}
	cfg, ok := props[prop]
	if !ok {
		fmt.Printf("property %s is not claimed (see MANIFEST.json not_applicable)\n", prop)
		os.Exit(2)
	}
	t0 := time.Now()
	r := &run{prop: prop, tier: *tier, seed: seed, assumed: map[string]bool{}, deps: map[string]bool{}}
	eng := fovc.NewEngine(repoDir, filepath.Join(verifDir, "specs"))
	r.eng = eng
	fatal := func(what string, err error) {
		// the check cannot run: this is a broken check, not a verdict. Report loudly, exit 2.
		fmt.Printf("ERROR property=%s %s: %v\n", prop, what, err)
		os.Exit(2)
	}
	if err := eng.LoadSpecs(); err != nil {
		fatal("loading spec libraries", err)
	}
	loadFailed := ""
	for _, m := range cfg.Modules {
		if err := eng.LoadModule(m); err != nil {
			loadFailed = fmt.Sprintf("%s: %v", m, err)
			break
		}
	}
	if loadFailed != "" {
		// /repo does not compile (or a contract file does not parse): nothing can be proved about it.
		fatal("loading /repo", fmt.Errorf("%s", loadFailed))
	}
	var keys []string
	for k, c := range eng.CS.Funcs {
		if c.Extern || c.Trusted || c.Inline {
			continue
		}
		for _, p := range c.Props {
			if p == prop {
				keys = append(keys, k)
			}
		}
	}
	sort.Strings(keys)
	if *only != "" {
		keys = strings.Split(*only, ",")
	}
	done := map[string]bool{}
	verify := func(k string, p string, dep bool) {
		done[k] = true
		fr, err := eng.VerifyFunc(k, p)
		if err != nil {
			// a contract without its function (renamed / deleted): fail closed
			r.obls = append(r.obls, &fovc.Obligation{Name: k + "/obligations-generated", Func: k, Kind: "generated", Clause: "the obligations of a function under contract can be generated: " + err.Error(), Result: "error", Solver: "fovc", Detail: err.Error()})
			return
		}
		if dep {
			r.depFuncs = append(r.depFuncs, k)
		} else {
			r.funcs = append(r.funcs, k)
		}
		r.obls = append(r.obls, fr.Obls...)
		for _, a := range fr.Assumed {
			r.assumed[a] = true
		}
		for _, d := range fr.Deps {
			r.deps[d] = true
		}
	}
	for _, k := range keys {
		verify(k, prop, false)
	}
	// the property's proof relies on the contracts of the callees: verify those functions too (all their
	// clauses), transitively, so that a change inside a callee that breaks its contract is reported by
	// this property's check as well
	if *only == "" {
		for changed := true; changed; {
			changed = false
			var ds []string
			for d := range r.deps {
				ds = append(ds, d)
			}
			sort.Strings(ds)
			for _, d := range ds {
				k := d
				if i := strings.Index(k, " ("); i >= 0 {
					k = k[:i]
				}
				if done[k] {
					continue
				}
				c := eng.CS.Funcs[k]
				if c == nil || c.Extern || c.Trusted || c.Inline {
					done[k] = true
					continue
				}
				verify(k, "", true)
				changed = true
			}
		}
	}
	timeout := 10
	if *tier == "thorough" {
		timeout = 60
	}
	// vacuity guards get a short budget: only "unsat" is a failure for them
	var covers, real []*fovc.Obligation
	for _, o := range r.obls {
		if o.MustFail {
			covers = append(covers, o)
		} else {
			real = append(real, o)
		}
	}
	fovc.Discharge(real, fovc.SolverCfg{TimeoutS: timeout, WorkDir: *dump, Seed: seed, Cross: *tier == "thorough", Workers: 5, Retries: 2})
	fovc.Discharge(covers, fovc.SolverCfg{TimeoutS: 1, Seed: seed, Workers: 8})
	if *only == "" {
		for _, s := range cfg.Scans {
			s(r)
		}
		for _, b := range cfg.BoundedQuick {
			b(r)
		}
		if *tier == "thorough" {
			for _, b := range cfg.Bounded {
				b(r)
			}
		}
	}
	// report
	kf := loadKnown()
	// known findings of this property: their repro is run against the real binary
	knownHit := map[string]bool{}
	var knownLines []string
	{
		var mine []finding
		for _, f := range kf.Findings {
			if f.Property == prop {
				mine = append(mine, f)
			}
		}
		if len(mine) > 0 && *only == "" {
			bin, cleanup, err := buildFc()
			if err != nil {
				r.extraVio = append(r.extraVio, violation{Obligation: "known-findings/build-fc", Detail: err.Error()})
			} else {
				for _, f := range mine {
					ok, desc := runRepro(bin, f)
					if ok {
						knownHit[f.ID] = true
						knownLines = append(knownLines, fmt.Sprintf("KNOWN-FINDING: property=%s %s: %s [carve-out: %s; repro: %s]", prop, f.ID, f.What, f.CarveOut, desc))
					} else {
						r.notes = append(r.notes, fmt.Sprintf("known finding %s no longer reproduces (%s): remove its carve-out %q and its entry", f.ID, desc, f.CarveOut))
					}
				}
				cleanup()
			}
		}
	}
	os.MkdirAll(filepath.Join(verifDir, "replays", prop), 0o755)
	nOb, nDis := 0, 0
	solverTally := map[string]int{}
	solverTime := 0.0
	var vios []violation
	for _, o := range r.obls {
		if *verbose {
			st := "ok  "
			if !o.Ok() {
				st = "FAIL"
			}
			fmt.Printf("%s %-64s %-8s %-14s %.2fs %s\n", st, o.Name, o.Result, o.Solver, o.TimeS, o.Detail)
		}
		if o.MustFail {
			if !o.Ok() {
				vios = append(vios, violation{Obligation: o.Name, Detail: "vacuity guard failed: " + o.Clause + " (" + o.Result + ")"})
			}
			continue
		}
		nOb++
		solverTime += o.TimeS
		if o.Ok() {
			nDis++
			solverTally[o.Solver]++
			continue
		}
		v := violation{Obligation: o.Name, Detail: o.Clause}
		mdl := ""
		if o.Result == "sat" {
			mdl = fovc.GetModel(o, 10)
		}
		if *model {
			fmt.Println(o.Name, "clause:", o.Clause)
			fmt.Println(mdl)
		}
		v.Replay, v.Input = writeReplay(r, o, mdl)
		vios = append(vios, v)
	}
	vios = append(vios, r.extraVio...)
	// vacuity: obligation count must not drop below the committed minimum
	minOb := minObligations(prop)
	if *only == "" && nOb < minOb {
		vios = append(vios, violation{Obligation: "meta/obligation-count", Detail: fmt.Sprintf("only %d obligations generated, committed minimum is %d (a contract file was lost or emptied?)", nOb, minOb)})
	}
	for _, l := range knownLines {
		fmt.Println(l)
	}
	exit := 0
	for _, v := range vios {
		if v.Replay == "" {
			v.Replay = writeTextReplay(prop, v.Obligation, v.Detail)
		}
		tail := ""
		if !v.Input {
			tail = " no-failing-input-found"
		}
		fmt.Printf("VIOLATION property=%s replay=%s obligation=%s%s\n", prop, v.Replay, v.Obligation, tail)
		exit = 1
	}
	wall := time.Since(t0).Seconds()
	if *only == "" && os.Getenv("VERIF_NO_EVIDENCE") == "" {
		// (VERIF_NO_EVIDENCE is set by the mutation / seeded-change scripts so that runs on a deliberately
		// broken tree do not overwrite the evidence of the unchanged tree)
		writeEvidence(r, cfg, nOb, nDis, solverTally, solverTime, wall, len(vios), kf, knownHit)
	}
	fmt.Printf("property=%s tier=%s functions=%d (+%d callees) obligations=%d discharged=%d violations=%d wall=%.1fs\n", prop, *tier, len(r.funcs), len(r.depFuncs), nOb, nDis, len(vios), wall)
	os.Exit(exit)
}

func loadKnown() knownFile {
	var kf knownFile
	b, err := os.ReadFile(filepath.Join(verifDir, "known_findings.json"))
	if err == nil {
		json.Unmarshal(b, &kf)
	}
	return kf
}

func minObligations(prop string) int {
	b, err := os.ReadFile(filepath.Join(verifDir, "min_obligations.json"))
	if err != nil {
		return 1
	}
	m := map[string]int{}
	json.Unmarshal(b, &m)
	if v, ok := m[prop]; ok {
		return v
	}
	return 1
}

func safeName(s string) string {
	r := strings.NewReplacer("/", "__", "#", "_", "@", "_", " ", "_")
	return r.Replace(s)
}

func writeTextReplay(prop, obl, detail string) string {
	p := filepath.Join(verifDir, "replays", prop, safeName(obl)+".txt")
	os.WriteFile(p, []byte("obligation: "+obl+"\n"+detail+"\n"), 0o644)
	return p
}

// writeReplay writes the replay file of a failed obligation and, where a concretiser exists, runs
// the counterexample against the real code.
func writeReplay(r *run, o *fovc.Obligation, model string) (string, bool) {
	p := filepath.Join(verifDir, "replays", r.prop, safeName(o.Name)+".txt")
	var b strings.Builder
	fmt.Fprintf(&b, "property: %s\nobligation: %s\nfunction: %s\nkind: %s\nposition: %s\nclause: %s\nsolver result: %s (%s, %.2fs)\n%s\n", r.prop, o.Name, o.Func, o.Kind, o.Pos, o.Clause, o.Result, o.Solver, o.TimeS, o.Detail)
	found := false
	if rep := concretise(r, o, model); rep != nil {
		b.WriteString("\n--- replay on the real code ---\n")
		b.WriteString(rep.Text)
		found = rep.Reproduced
	}
	if model != "" {
		b.WriteString("\n--- solver model (counterexample to the verification condition) ---\n")
		if len(model) > 20000 {
			model = model[:20000] + "\n...(truncated)\n"
		}
		b.WriteString(model)
	} else {
		b.WriteString("\n(no model: the solvers answered " + o.Result + "; quantified or recursive goals that fail usually time out instead of producing a model)\n")
	}
	os.WriteFile(p, []byte(b.String()), 0o644)
	return p, found
}

func writeEvidence(r *run, cfg propCfg, nOb, nDis int, tally map[string]int, solverTime, wall float64, nvio int, kf knownFile, knownHit map[string]bool) {
	var samples []any
	// a few representative obligations: the largest queries and one of each kind
	seenKind := map[string]bool{}
	for _, o := range r.obls {
		k := o.Kind
		if i := strings.IndexAny(k, ".#"); i > 0 {
			k = k[:i]
		}
		if seenKind[k] || len(samples) >= 12 {
			continue
		}
		seenKind[k] = true
		samples = append(samples, map[string]any{"obligation": o.Name, "clause": o.Clause, "pos": o.Pos, "result": o.Result, "solver": o.Solver, "time_s": o.TimeS, "smt_bytes": o.Bytes, "must_fail_guard": o.MustFail})
	}
	var assumptions []string
	for a := range r.assumed {
		assumptions = append(assumptions, a)
	}
	sort.Strings(assumptions)
	assumptions = append(assumptions,
		"machine integers are treated as mathematical integers (no overflow reasoning) except where a contract says otherwise",
		"termination is proved only for loops with a decreases clause and for range loops; elsewhere partial correctness",
		"the VC generator fovc (Go semantics of DESIGN §2.3, symbolic execution, SMT printing), go/types, and the SMT solvers are trusted")
	var deps []string
	for d := range r.deps {
		deps = append(deps, d)
	}
	sort.Strings(deps)
	trusted := []string{"fovc VC generator (/verif/fovc)", "z3 4.8.12, z3 5.1.0, cvc5 1.0 (first definite answer per obligation; thorough tier cross-checks them)", "go/packages + go/types (x/tools v0.29.0)"}
	for _, a := range assumptions {
		if strings.HasPrefix(a, "assumed contract of ") {
			trusted = append(trusted, a+" (/verif/specs/externals.spec)")
		}
	}
	var obl []any
	for _, o := range r.obls {
		if o.MustFail {
			continue
		}
		obl = append(obl, map[string]any{"name": o.Name, "result": o.Result, "solver": o.Solver, "time_s": round3(o.TimeS)})
	}
	nCovers := 0
	for _, o := range r.obls {
		if o.MustFail {
			nCovers++
		}
	}
	var known []string
	for _, f := range kf.Findings {
		if f.Property == r.prop && knownHit[f.ID] {
			known = append(known, f.ID+": "+f.What)
		}
	}
	cov := map[string]any{
		"obligations":                    nOb,
		"discharged":                     nDis,
		"checker_cmd":                    fmt.Sprintf("cd /verif && ./bin/check %s --tier %s", r.prop, r.tier),
		"trusted_base":                   trusted,
		"functions_under_contract":       r.funcs,
		"callee_functions_also_verified": r.depFuncs,
		"contracts_relied_on":            deps,
		"discharged_by_backend":          tally,
		"solver_time_s":                  round3(solverTime),
		"vacuity_guards":                 nCovers,
		"samples":                        samples,
		"obligation_results":             obl,
		"clauses_decided":                cfg.Decided,
		"clauses_not_decided":            cfg.NotDecided,
		"bounded_stand_ins":              r.bounded,
		"known_findings_reproduced":      known,
		"notes":                          r.notes,
		"explanation":                    "every obligation is an SMT query generated from the function bodies in /repo's working tree and the contracts in contracts_verif.go; discharged == obligations means the solvers proved all of them unsat",
	}
	ev := map[string]any{
		"property_id": r.prop,
		"tier":        r.tier,
		"seed":        r.seed,
		"level":       "proof",
		"coverage":    cov,
		"assumptions": assumptions,
		"wall_s":      round3(wall),
		"violations":  nvio,
	}
	os.MkdirAll(filepath.Join(verifDir, "evidence"), 0o755)
	b, _ := json.MarshalIndent(ev, "", " ")
	os.WriteFile(filepath.Join(verifDir, "evidence", r.prop+".json"), b, 0o644)
}

func round3(f float64) float64 { return float64(int(f*1000+0.5)) / 1000 }
