package main

import (
	"fmt"
	"os"
	"path/filepath"
	"strings"
)

// Known findings (DESIGN §6.2): genuine defects recorded rather than repaired.  Each has a carve-out (a
// precondition in the contract that excludes exactly the known class, so that every obligation still
// discharges and a different violation of the same property is still reported) and a repro that is run
// against the real fc binary on every check: while it still reproduces the check prints
// "KNOWN-FINDING: property=<id> <what fails>".

type repro struct {
	Kind    string   `json:"kind"` // fc-output-varies | fc-accept-differs | fc-fatal
	Source  string   `json:"source,omitempty"`
	Source2 string   `json:"source2,omitempty"`
	Args    []string `json:"args,omitempty"`
}

type finding struct {
	Property string `json:"property"`
	ID       string `json:"id"`
	CarveOut string `json:"carve_out"`
	What     string `json:"what"`
	Repro    repro  `json:"repro"`
}

// runRepro returns (reproduced, description).
func runRepro(bin string, f finding) (bool, string) {
	switch f.Repro.Kind {
	case "fc-output-varies":
		seen := map[string]int{}
		for i := 0; i < 60; i++ {
			dir, _ := os.MkdirTemp("", "verifkf")
			os.WriteFile(filepath.Join(dir, "k.fo"), []byte(f.Repro.Source), 0o644)
			fr := runFc(bin, dir, "k.fo")
			out, _ := os.ReadFile(filepath.Join(dir, "gen_k.go"))
			os.RemoveAll(dir)
			seen[fmt.Sprintf("exit=%d\n%s", fr.exit, out)]++
			if len(seen) >= 2 {
				return true, fmt.Sprintf("%d runs of fc on the same file gave %d different results", i+1, len(seen))
			}
		}
		return false, "60 runs gave identical results"
	case "fc-accept-differs":
		run := func(src string) fcRun {
			dir, _ := os.MkdirTemp("", "verifkf")
			defer os.RemoveAll(dir)
			os.WriteFile(filepath.Join(dir, "k.fo"), []byte(src), 0o644)
			return runFc(bin, dir, "k.fo")
		}
		a, b := run(f.Repro.Source), run(f.Repro.Source2)
		if (a.exit == 0) != (b.exit == 0) {
			return true, fmt.Sprintf("first layout: exit %d (%s); second layout: exit %d", a.exit, strings.TrimSpace(lastLines(a.out, 1)), b.exit)
		}
		return false, fmt.Sprintf("both layouts: exit %d / %d", a.exit, b.exit)
	case "fc-fatal":
		dir, _ := os.MkdirTemp("", "verifkf")
		defer os.RemoveAll(dir)
		os.WriteFile(filepath.Join(dir, "k.fo"), []byte(f.Repro.Source), 0o644)
		fr := runFc(bin, dir, "k.fo")
		if strings.Contains(fr.out, "fatal error") || strings.Contains(fr.out, "stack overflow") || fr.timeout {
			return true, fmt.Sprintf("fc dies: exit %d, %s", fr.exit, firstLine(fr.out, "fatal error"))
		}
		return false, fmt.Sprintf("exit %d, no fatal error", fr.exit)
	}
	return false, "unknown repro kind"
}

func firstLine(s, containing string) string {
	for _, l := range strings.Split(s, "\n") {
		if strings.Contains(l, containing) {
			return strings.TrimSpace(l)
		}
	}
	return ""
}
