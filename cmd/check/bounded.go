package main

import (
	"fmt"
	"os"
	"path/filepath"
	"regexp"
	"strings"
	"time"
)

// Bounded stand-ins (thorough tier): validation of ASSUMED contracts of code outside /repo by running
// the real function on an enumerated universe.  Labelled bounded in the evidence, never counted among
// the discharged obligations.

var reBounded = regexp.MustCompile(`BOUNDED pairs=(\d+) panic="(.*)" mismatch="(.*)"`)

func boundedOpEqual(r *run) {
	files := map[string]string{
		"zz_verif_replay_test.go":      filepath.Join(verifDir, "replay/frt_replay_test.go"),
		"zz_verif_replay_more_test.go": filepath.Join(verifDir, "replay/frt_replay_more_test.go"),
	}
	out, _ := runOverlayTestFiles(filepath.Join(repoDir, "pkg/frt"), files, "TestVerifBounded", []string{"VERIF_BOUNDED=1"}, 120*time.Second)
	m := reBounded.FindStringSubmatch(out)
	entry := map[string]any{"what": "assumed contract of go-cmp cmp.Equal with the options OpEqual passes, against an executable struct_eq", "label": "bounded", "bound": "all pairs of equal static type from the first-order universe of replay/frt_replay_more_test.go: ints, strings, bools, tuples, records with upper/lower-case fields, nested records, unions, slices (nil / empty / made / resliced / append-built), nesting depth <= 3"}
	if m == nil {
		entry["result"] = "harness did not run: " + lastLines(out, 5)
		r.extraVio = append(r.extraVio, violation{Obligation: "bounded/frt.OpEqual", Detail: "bounded validation harness failed to run:\n" + out})
	} else {
		entry["pairs"] = m[1]
		entry["panic"] = m[2]
		entry["mismatch"] = m[3]
		if m[2] != "" || m[3] != "" {
			p := filepath.Join(verifDir, "replays", r.prop, "bounded_frt.OpEqual.txt")
			os.MkdirAll(filepath.Dir(p), 0o755)
			os.WriteFile(p, []byte(fmt.Sprintf("bounded validation of OpEqual on the real code found a failing input\npanic: %s\nmismatch: %s\ncommand: (cd /repo/pkg/frt && VERIF_BOUNDED=1 go test -overlay <replay harness> -run TestVerifBounded -v .)\n", m[2], m[3])), 0o644)
			r.extraVio = append(r.extraVio, violation{Obligation: "bounded/frt.OpEqual", Detail: m[2] + " " + m[3], Replay: p, Input: true})
		}
	}
	r.bounded = append(r.bounded, entry)
}

func lastLines(s string, n int) string {
	ls := strings.Split(strings.TrimSpace(s), "\n")
	if len(ls) > n {
		ls = ls[len(ls)-n:]
	}
	return strings.Join(ls, " | ")
}
