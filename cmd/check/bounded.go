package main

import (
	"context"
	"fmt"
	"os"
	"os/exec"
	"path/filepath"
	"regexp"
	"strings"
	"time"
)

// Bounded stand-ins (thorough tier): validation of ASSUMED contracts of code outside /repo by running
// the real function on an enumerated universe.  Labelled bounded in the evidence, never counted among
// the discharged obligations.

var reBounded = regexp.MustCompile(`BOUNDED pairs=(\d+) panic="(.*)" mismatch="(.*)"`)

func boundedOpEqual(r *run) {
	files := map[string]string{
		"zz_verif_replay_test.go":      filepath.Join(verifDir, "replay/frt_replay_test.go"),
		"zz_verif_replay_more_test.go": filepath.Join(verifDir, "replay/frt_replay_more_test.go"),
	}
	out, _ := runOverlayTestFiles(filepath.Join(repoDir, "pkg/frt"), files, "TestVerifBounded", []string{"VERIF_BOUNDED=1"}, 120*time.Second)
	m := reBounded.FindStringSubmatch(out)
	entry := map[string]any{"what": "assumed contract of go-cmp cmp.Equal with the options OpEqual passes, against an executable struct_eq", "label": "bounded", "bound": "all pairs of equal static type from the first-order universe of replay/frt_replay_more_test.go: ints, strings, bools, tuples, records with upper/lower-case fields, nested records, unions, slices (nil / empty / made / resliced / append-built), nesting depth <= 3"}
	if m == nil {
		entry["result"] = "harness did not run: " + lastLines(out, 5)
		r.extraVio = append(r.extraVio, violation{Obligation: "bounded/frt.OpEqual", Detail: "bounded validation harness failed to run:\n" + out})
	} else {
		entry["pairs"] = m[1]
		entry["panic"] = m[2]
		entry["mismatch"] = m[3]
		if m[2] != "" || m[3] != "" {
			p := filepath.Join(verifDir, "replays", r.prop, "bounded_frt.OpEqual.txt")
			os.MkdirAll(filepath.Dir(p), 0o755)
			os.WriteFile(p, []byte(fmt.Sprintf("bounded validation of OpEqual on the real code found a failing input\npanic: %s\nmismatch: %s\ncommand: (cd /repo/pkg/frt && VERIF_BOUNDED=1 go test -overlay <replay harness> -run TestVerifBounded -v .)\n", m[2], m[3])), 0o644)
			r.extraVio = append(r.extraVio, violation{Obligation: "bounded/frt.OpEqual", Detail: m[2] + " " + m[3], Replay: p, Input: true})
		}
	}
	r.bounded = append(r.bounded, entry)
}

func lastLines(s string, n int) string {
	ls := strings.Split(strings.TrimSpace(s), "\n")
	if len(ls) > n {
		ls = ls[len(ls)-n:]
	}
	return strings.Join(ls, " | ")
}

// boundedC15Parser: the parser half of C15 (parseType family) is not within the verifier's reach; this
// bounded enumeration stands in for it - labelled bounded, never counted among the discharged obligations.
func boundedC15Parser(r *run) {
	out, _ := runOverlayTestFiles(filepath.Join(repoDir, "fc"), map[string]string{"zz_verif_c15_test.go": filepath.Join(verifDir, "replay/fc_c15_bounded_test.go")}, "TestVerifBoundedC15", []string{"VERIF_BOUNDED_C15=1"}, 120*time.Second)
	entry := map[string]any{"what": "parser half of C15: type expression -> FType -> Go type, through the real parser and emitter against a reference translation written from the documentation", "label": "bounded", "bound": "every type expression of the documented grammar to depth 2 over int/string/bool/float/any, slices, 2- and 3-tuples, function types (incl. unit argument / result), with minimal and with redundant parentheses, in 3 syntactic positions (parameter annotation, record field, union payload)"}
	switch {
	case strings.Contains(out, "BOUNDED-C15 OK"):
		i := strings.Index(out, "BOUNDED-C15 OK")
		entry["result"] = strings.TrimSpace(strings.SplitN(out[i:], "\n", 2)[0])
	case strings.Contains(out, "BOUNDED-C15 FAIL"):
		i := strings.Index(out, "BOUNDED-C15 FAIL")
		txt := out[i:]
		if j := strings.Index(txt, "--- "); j > 0 {
			txt = txt[:j]
		}
		entry["result"] = "failing input found"
		p := filepath.Join(verifDir, "replays", r.prop, "bounded_parser_half.txt")
		os.MkdirAll(filepath.Dir(p), 0o755)
		os.WriteFile(p, []byte("bounded stand-in for the parser half of C15 found a failing input on the real code\ncommand: (cd /repo/fc && VERIF_BOUNDED_C15=1 go test -overlay <zz_verif_c15_test.go => /verif/replay/fc_c15_bounded_test.go> -vet=off -run TestVerifBoundedC15 -v .)\n"+txt), 0o644)
		r.extraVio = append(r.extraVio, violation{Obligation: "bounded/parser-half", Detail: txt, Replay: p, Input: true})
	default:
		entry["result"] = "harness did not run: " + lastLines(out, 4)
		r.extraVio = append(r.extraVio, violation{Obligation: "bounded/parser-half", Detail: "bounded harness failed to run:\n" + out})
	}
	r.bounded = append(r.bounded, entry)
}

var reExt = regexp.MustCompile(`(?m)^EXTCHECK (.*) cases=(\d+) (ok|FAIL.*)$`)

// boundedExternals runs the bounded validation of assumed external contracts (/verif/extcheck).
func boundedExternals(tests ...string) func(*run) {
	return func(r *run) {
		ctx, cancel := context.WithTimeout(context.Background(), 5*time.Minute)
		defer cancel()
		cmd := exec.CommandContext(ctx, "go", "test", "./extcheck", "-count=1", "-v", "-run", "^("+strings.Join(tests, "|")+")$")
		cmd.Dir = verifDir
		cmd.Env = append(os.Environ(), "GOFLAGS=-mod=mod", "GOPROXY=off", "GOSUMDB=off", "GOTOOLCHAIN=local")
		out, _ := cmd.CombinedOutput()
		ms := reExt.FindAllStringSubmatch(string(out), -1)
		if len(ms) == 0 {
			r.extraVio = append(r.extraVio, violation{Obligation: "bounded/externals", Detail: "the bounded validation of assumed external contracts did not run:\n" + string(out)})
			return
		}
		for _, m := range ms {
			entry := map[string]any{"what": "assumed contract of " + m[1] + " against the real Go function", "label": "bounded", "bound": "exhaustive over the small universe in /verif/extcheck/extcheck_test.go", "cases": m[2], "result": m[3]}
			r.bounded = append(r.bounded, entry)
			if m[3] != "ok" {
				// an ASSUMPTION of the proof does not hold on the real dependency: reported, with the failing case
				p := filepath.Join(verifDir, "replays", r.prop, "bounded_externals.txt")
				os.MkdirAll(filepath.Dir(p), 0o755)
				os.WriteFile(p, []byte("assumed external contract refuted by the bounded validation: "+m[1]+": "+m[3]+"\ncommand: (cd /verif && go test ./extcheck -v)\n"), 0o644)
				r.extraVio = append(r.extraVio, violation{Obligation: "bounded/externals/" + m[1], Detail: m[3], Replay: p, Input: true})
			}
		}
	}
}
