/-
C12 glue lemma (DESIGN §4 C12): if every call of a slice-library function satisfies the STRONG FRAME proved
by the verifier (no cell of an array that existed before the call is written) and the allocation counter
only grows, then every slice value keeps, at every later time, the contents it had when it was produced.

A history is a sequence of heaps indexed by time (one step = one library call).  `heap t r j` is cell `j`
of array `r` at time `t`; `next t` is the allocation counter: exactly the arrays `r < next t` exist at
time `t`.  A slice value is a window `(arr, off, len)`; it exists at time `k` when `arr < next k`.
Lean 4 core only; checked with `lean` in the thorough tier.
-/

structure Hist where
  heap  : Nat → Nat → Nat → Nat
  next  : Nat → Nat
  mono  : ∀ t, next t ≤ next (t + 1)
  /-- the per-call postcondition `frame()` of every function of package slice -/
  frame : ∀ t r j, r < next t → heap (t + 1) r j = heap t r j

theorem next_mono (H : Hist) (k : Nat) : ∀ d, H.next k ≤ H.next (k + d) := by
  intro d
  induction d with
  | zero => exact Nat.le_refl _
  | succ d ih => exact Nat.le_trans ih (H.mono (k + d))

/-- a cell of an array that exists at time `k` never changes afterwards -/
theorem cell_stable (H : Hist) (k r j : Nat) (hr : r < H.next k) :
    ∀ d, H.heap (k + d) r j = H.heap k r j := by
  intro d
  induction d with
  | zero => rfl
  | succ d ih =>
    have hlt : r < H.next (k + d) := Nat.lt_of_lt_of_le hr (next_mono H k d)
    have hstep : H.heap (k + d + 1) r j = H.heap (k + d) r j := H.frame (k + d) r j hlt
    calc H.heap (k + (d + 1)) r j = H.heap (k + d + 1) r j := by rw [Nat.add_assoc]
      _ = H.heap (k + d) r j := hstep
      _ = H.heap k r j := ih

structure SliceVal where
  arr : Nat
  off : Nat
  len : Nat

/-- the contents of a slice value at time `t` -/
def view (H : Hist) (t : Nat) (v : SliceVal) (i : Nat) : Nat := H.heap t v.arr (v.off + i)

/-- C12: a slice value that exists at time `k` has the same contents at every later time `n`,
    whatever library calls happen in between (on it, on its source, on sibling results). -/
theorem slice_value_keeps_its_contents (H : Hist) (v : SliceVal) (k n : Nat)
    (hexists : v.arr < H.next k) (hle : k ≤ n) :
    ∀ i, view H n v i = view H k v i := by
  intro i
  obtain ⟨d, hd⟩ := Nat.exists_eq_add_of_le hle
  subst hd
  exact cell_stable H k v.arr (v.off + i) hexists d
