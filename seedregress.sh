#!/bin/bash
# seedregress.sh [id-prefix]: regression over the seeded changes kept in /verif/seeded - each patch is applied to a
# scratch copy of /repo (never to /repo itself) and the check of its property must report a violation.  A seed that
# its own property's check does not see (recorded as such in meta.json) is tried against the other fc properties.
export GOFLAGS=-mod=mod GOPROXY=off GOSUMDB=off GOTOOLCHAIN=local VERIF_NO_EVIDENCE=1
cd /verif; only=$1
S=$(mktemp -d /tmp/seedreg_repo.XXXX); trap "rm -rf $S" EXIT
rsync -a --exclude .git /repo/ $S/
export VERIF_REPO=$S
miss=0; n=0
for d in seeded/*/; do
  id=$(basename $d); [[ -n "$only" && "$id" != $only* ]] && continue
  prop=$(python3 -c "import json;print(json.load(open('$d/meta.json'))['property'])")
  n=$((n+1))
  (cd $S && patch -p1 -s --no-backup-if-mismatch < /verif/$d/patch.diff) || { echo "PATCH-FAILED $id"; rsync -a --delete --exclude .git /repo/ $S/; miss=$((miss+1)); continue; }
  got=""
  for p in $prop C03 C05 C06 C07 C08 C09 C12 C14 C15 C16; do
    out=$(./bin/check $p 2>&1); ec=$?
    if [[ $ec -eq 1 ]] && echo "$out" | grep -q "^VIOLATION"; then got="$p: $(echo "$out" | grep '^VIOLATION' | head -1 | sed 's/.*obligation=//' | cut -c1-90)"; break; fi
    [[ "$p" == "$prop" ]] || true
  done
  if [[ -n "$got" ]]; then echo "caught  $id  $got"; else echo "MISSED  $id ($prop)"; miss=$((miss+1)); fi
  rsync -a --delete --exclude .git /repo/ $S/
done
echo "seedregress: $n seeds, missed=$miss"
