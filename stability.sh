#!/bin/bash
# stability sweep: every claimed check under several solver seeds; reports alarms and slow obligations
cd "$(dirname "$0")"
export GOFLAGS=-mod=mod GOPROXY=off GOSUMDB=off GOTOOLCHAIN=local VERIF_NO_EVIDENCE=
[ -x bin/check ] || go build -o bin/ ./cmd/...
props=$(python3 -c "import json;print(' '.join(c['property_id'] for c in json.load(open('MANIFEST.json'))['checks']))")
for seed in ${SEEDS:-1 2 3 4 5 6 7 8}; do
  for p in $props; do
    out=$(VERIF_SEED=$seed ./bin/check $p --tier quick 2>&1); ec=$?
    echo "seed=$seed $p exit=$ec $(echo "$out" | tail -1)"
    echo "$out" | grep "^VIOLATION" | sed "s/^/   seed=$seed /"
    python3 - "$p" "$seed" <<'PY'
import json,sys
try:
    e=json.load(open('evidence/%s.json'%sys.argv[1]))
    for o in e['coverage']['obligation_results']:
        if o['time_s']>3: print("   slow seed=%s %s %.1fs %s"%(sys.argv[2],o['name'],o['time_s'],o['solver']))
except Exception as ex: print("   (no evidence)",ex)
PY
  done
done
