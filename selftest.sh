#!/bin/bash
# selftest.sh [prop]: must-fail corpus (deliberate property-breaking edits must be reported with the expected
# obligation) and harmless corpus (behaviour-preserving edits must stay silent), on a scratch copy of /repo.
export GOFLAGS=-mod=mod GOPROXY=off GOSUMDB=off GOTOOLCHAIN=local VERIF_NO_EVIDENCE=1
cd /verif; only=$1
S=$(mktemp -d /tmp/selftest_repo.XXXX); trap "rm -rf $S $S.bak" EXIT
rsync -a --exclude .git /repo/ $S/
export VERIF_REPO=$S
fail=0; n=0
while IFS=$'\t' read -r prop file expr expect; do
  [[ "$prop" == \#* || -z "$prop" ]] && continue
  [[ -n "$only" && "$only" != "$prop" ]] && continue
  n=$((n+1)); cp $S/$file $S.bak; sed -i "$expr" $S/$file
  if cmp -s $S/$file $S.bak; then echo "NOT-APPLIED $prop $file $expr"; fail=1; continue; fi
  if ! (cd $(dirname $S/$file) && go build ./... >/dev/null 2>&1); then echo "DOES-NOT-COMPILE $prop $file $expr"; cp $S.bak $S/$file; fail=1; continue; fi
  out=$(./bin/check $prop 2>&1); ec=$?
  if [[ $ec -eq 1 ]] && echo "$out" | grep "^VIOLATION" | grep -q -- "$expect"; then echo "detected   $prop  $expect"; else echo "MISSED     $prop $file [$expr] exit=$ec expected $expect"; echo "$out" | grep "^VIOLATION" | head -3; fail=1; fi
  cp $S.bak $S/$file
done < selftest/mutants.tsv
while IFS=$'\t' read -r prop file expr; do
  [[ "$prop" == \#* || -z "$prop" ]] && continue
  [[ -n "$only" && "$only" != "$prop" ]] && continue
  n=$((n+1)); cp $S/$file $S.bak; sed -i "$expr" $S/$file
  if cmp -s $S/$file $S.bak; then echo "NOT-APPLIED(harmless) $prop $file"; fail=1; continue; fi
  if ! (cd $(dirname $S/$file) && go build ./... >/dev/null 2>&1); then echo "DOES-NOT-COMPILE(harmless) $prop $file"; cp $S.bak $S/$file; fail=1; continue; fi
  out=$(./bin/check $prop 2>&1); ec=$?
  if [[ $ec -eq 0 ]]; then echo "silent     $prop  (harmless edit of $file)"; else echo "FALSE-ALARM $prop $file [$expr]"; echo "$out" | grep "^VIOLATION" | head -3; fail=1; fi
  cp $S.bak $S/$file
done < selftest/harmless.tsv
echo "selftest: $n cases, failures=$fail"; exit $fail
