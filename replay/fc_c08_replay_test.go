package main

// C08 replay harness (injected with `go test -overlay`): operator chains of up to 3 operators between
// atomic operands are run through the REAL parser and emitter (initParse / parseAll / RootStmtsToGo) and
// the parenthesisation of the emitted Go is compared with a table-driven reference built from the
// published table (|> ; && || < > <= >= ; = <> ; + - ; * / ; left associative).  Witness search: run only
// after a C08 obligation has failed, to attach a failing chain to it.

import (
	"fmt"
	"os"
	"strings"
	"testing"
)

var c08ops = []struct {
	src  string
	rank int
	gosp string
}{
	{"&&", 2, "&&"}, {"||", 2, "||"}, {"<", 2, "<"}, {">", 2, ">"}, {"<=", 2, "<="}, {">=", 2, ">="},
	{"=", 3, "frt.OpEqual"}, {"<>", 3, "frt.OpNotEqual"}, {"+", 4, "+"}, {"-", 4, "-"}, {"*", 5, "*"}, {"/", 5, "/"},
}

func c08render(op int, l, r string) string {
	o := c08ops[op]
	if o.rank == 3 {
		return o.gosp + "(" + l + ", " + r + ")"
	}
	return "(" + l + o.gosp + r + ")"
}

// reference: precedence climbing over the published table
func c08ref(operands []string, ops []int) string {
	pos := 0
	var parse func(min int) string
	parse = func(min int) string {
		lhs := operands[pos]
		for pos < len(ops) && c08ops[ops[pos]].rank >= min {
			op := ops[pos]
			pos++
			rhs := parse(c08ops[op].rank + 1)
			lhs = c08render(op, lhs, rhs)
		}
		return lhs
	}
	return parse(1)
}

func c08transpile(src string) (out string, ok bool) {
	defer func() {
		if r := recover(); r != nil {
			ok = false
		}
	}()
	return transpile0(src), true
}

func transpile0(src string) string {
	ps := initParse(src)
	res := ParseAll(ps)
	return RootStmtsToGo(res.E1)
}

func TestVerifReplayC08(t *testing.T) {
	if os.Getenv("VERIF_REPLAY_C08") == "" {
		t.Skip()
	}
	names := []string{"a", "b", "c", "d"}
	tried, compared := 0, 0
	var rec func(ops []int, n int) string
	rec = func(ops []int, n int) string {
		if len(ops) == n {
			for _, ty := range []string{"int", "bool"} {
				var sb strings.Builder
				sb.WriteString("package main\n\nlet f")
				for i := 0; i <= n; i++ {
					fmt.Fprintf(&sb, " (%s:%s)", names[i], ty)
				}
				sb.WriteString(" =\n  ")
				for i := 0; i <= n; i++ {
					if i > 0 {
						sb.WriteString(" " + c08ops[ops[i-1]].src + " ")
					}
					sb.WriteString(names[i])
				}
				sb.WriteString("\n")
				tried++
				out, ok := c08transpile(sb.String())
				if !ok {
					continue
				}
				compared++
				want := c08ref(names[:n+1], ops)
				flat := strings.NewReplacer(" ", "", "\n", "", "\t", "").Replace(out)
				if !strings.Contains(flat, strings.ReplaceAll(want, " ", "")) {
					return fmt.Sprintf("chain %q (operands of type %s):\n   emitted   %s\n   published table and left association give %s", strings.TrimSpace(strings.SplitN(sb.String(), "=\n", 2)[1]), ty, strings.TrimSpace(out[strings.Index(out, "func f"):]), want)
				}
				return ""
			}
			return ""
		}
		for o := range c08ops {
			if m := rec(append(append([]int{}, ops...), o), n); m != "" {
				return m
			}
		}
		return ""
	}
	for n := 1; n <= 3; n++ {
		if m := rec(nil, n); m != "" {
			fmt.Printf("REPLAY-REPRODUCED source=witness-search tried=%d compared=%d\n  %s\n", tried, compared, m)
			return
		}
	}
	fmt.Printf("REPLAY-NOT-REPRODUCED tried=%d chains, compared=%d (the others are rejected by type inference)\n", tried, compared)
}
