package frt

// OpEqual / OpNotEqual: executable struct_eq (the equality of C10) and a bounded universe of
// first-order values.  Used (a) to attach a failing input to a failed C10 obligation and (b) as the
// bounded validation of the ASSUMED go-cmp contract in the thorough tier (labelled bounded).

import (
	"fmt"
	"os"
	"reflect"
	"testing"
)

type recU struct {
	A int
	B string
}
type recL struct {
	a int
	b []int
}
type recN struct {
	Name  string
	Inner recL
	Xs    []recU
}
type uni interface{ uni_Union() }
type uni_A struct{}
type uni_B struct{ Value int }
type uni_C struct{ Value []int }

func (uni_A) uni_Union() {}
func (uni_B) uni_Union() {}
func (uni_C) uni_Union() {}

// structEq: same structure and contents; nil slice == empty slice; field names irrelevant.
func structEq(a, b reflect.Value) bool {
	if a.IsValid() != b.IsValid() {
		return false
	}
	if !a.IsValid() {
		return true
	}
	if a.Type() != b.Type() {
		return false
	}
	switch a.Kind() {
	case reflect.Int, reflect.Int8, reflect.Int16, reflect.Int32, reflect.Int64:
		return a.Int() == b.Int()
	case reflect.Bool:
		return a.Bool() == b.Bool()
	case reflect.String:
		return a.String() == b.String()
	case reflect.Slice:
		if a.Len() != b.Len() {
			return false
		}
		for i := 0; i < a.Len(); i++ {
			if !structEq(a.Index(i), b.Index(i)) {
				return false
			}
		}
		return true
	case reflect.Struct:
		for i := 0; i < a.NumField(); i++ {
			if !structEq(a.Field(i), b.Field(i)) {
				return false
			}
		}
		return true
	case reflect.Interface:
		if a.IsNil() || b.IsNil() {
			return a.IsNil() == b.IsNil()
		}
		return structEq(a.Elem(), b.Elem())
	}
	panic("structEq: kind outside the first-order universe: " + a.Kind().String())
}

func filterLike(xs []int, keep func(int) bool) []int {
	var res []int
	for _, x := range xs {
		if keep(x) {
			res = append(res, x)
		}
	}
	return res
}

func intSlices() [][]int {
	base := []int{1, 2, 3}
	return [][]int{
		nil,
		{},
		make([]int, 0, 4),
		base[:0],
		filterLike(base, func(int) bool { return false }), // nil result of an append-built filter
		{1},
		filterLike(base, func(x int) bool { return x == 1 }),
		base[:1],
		{1, 2},
		{2, 1},
	}
}

type pair struct {
	name string
	eq   func() (got bool, want bool)
}

func mkPairs[T any](name string, vals []T) []pair {
	var ps []pair
	for i := range vals {
		for j := range vals {
			a, b := vals[i], vals[j]
			ps = append(ps, pair{fmt.Sprintf("%s: %#v = %#v", name, a, b), func() (bool, bool) {
				want := structEq(reflect.ValueOf(&a).Elem(), reflect.ValueOf(&b).Elem())
				got := OpEqual(a, b)
				ne := OpNotEqual(a, b)
				if ne == got {
					panic(fmt.Sprintf("OpNotEqual is not the negation of OpEqual"))
				}
				return got, want
			}})
		}
	}
	return ps
}

func universe() []pair {
	var ps []pair
	ps = append(ps, mkPairs("int", []int{0, 1, -1})...)
	ps = append(ps, mkPairs("string", []string{"", "a", "b"})...)
	ps = append(ps, mkPairs("bool", []bool{true, false})...)
	ps = append(ps, mkPairs("[]int", intSlices())...)
	var tups []Tuple2[int, string]
	for _, i := range []int{0, 1} {
		for _, s := range []string{"", "x"} {
			tups = append(tups, NewTuple2(i, s))
		}
	}
	ps = append(ps, mkPairs("int*string", tups)...)
	var tsl []Tuple2[[]int, bool]
	for _, s := range intSlices()[:6] {
		tsl = append(tsl, NewTuple2(s, true), NewTuple2(s, false))
	}
	ps = append(ps, mkPairs("[]int*bool", tsl)...)
	ps = append(ps, mkPairs("record(upper)", []recU{{0, ""}, {1, ""}, {1, "a"}, {0, "a"}})...)
	var rls []recL
	for _, s := range intSlices()[:7] {
		rls = append(rls, recL{0, s}, recL{1, s})
	}
	ps = append(ps, mkPairs("record(lower)", rls)...)
	ps = append(ps, mkPairs("union", []uni{uni_A{}, uni_B{1}, uni_B{2}, uni_C{nil}, uni_C{[]int{}}, uni_C{[]int{1}}})...)
	ps = append(ps, mkPairs("[]union", [][]uni{nil, {}, {uni_A{}}, {uni_B{1}}, {uni_A{}, uni_B{1}}, {uni_C{nil}}, {uni_C{[]int{}}}})...)
	var nested []recN
	for _, inner := range rls[:4] {
		for _, xs := range [][]recU{nil, {}, {{1, "a"}}} {
			nested = append(nested, recN{"n", inner, xs})
		}
	}
	ps = append(ps, mkPairs("record(nested)", nested)...)
	ps = append(ps, mkPairs("[][]int", [][][]int{nil, {}, {nil}, {{}}, {{1}}, {{1}, nil}, {{1}, {}}})...)
	return ps
}

// runUniverse returns (#pairs, first panic message, first mismatch message).
func runUniverse() (int, string, string) {
	n := 0
	firstPanic, firstDiff := "", ""
	for _, p := range universe() {
		n++
		func() {
			defer func() {
				if r := recover(); r != nil && firstPanic == "" {
					firstPanic = fmt.Sprintf("%s panics: %v", p.name, r)
				}
			}()
			got, want := p.eq()
			if got != want && firstDiff == "" {
				firstDiff = fmt.Sprintf("%s evaluates to %v, structural equality is %v", p.name, got, want)
			}
		}()
	}
	return n, firstPanic, firstDiff
}

func replayMore(what string) {
	n, pn, df := runUniverse()
	switch what {
	case "opequal-panic":
		if pn != "" {
			fmt.Printf("REPLAY-REPRODUCED source=witness-search tried=%d\n  %s (C10: a = b never panics)\n", n, pn)
			return
		}
	case "opequal-value":
		if df != "" {
			fmt.Printf("REPLAY-REPRODUCED source=witness-search tried=%d\n  %s (C10: true exactly when same structure and contents)\n", n, df)
			return
		}
	}
	fmt.Printf("REPLAY-NOT-REPRODUCED tried=%d\n", n)
}

// TestVerifBounded: bounded validation of the assumed go-cmp contract (thorough tier).
func TestVerifBounded(t *testing.T) {
	if os.Getenv("VERIF_BOUNDED") == "" {
		t.Skip()
	}
	n, pn, df := runUniverse()
	fmt.Printf("BOUNDED pairs=%d panic=%q mismatch=%q\n", n, pn, df)
}
