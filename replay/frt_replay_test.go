package frt

// Replay harness for package frt, injected with `go test -overlay`.  Runs the real functions on a
// concrete value built from the solver model (the reflect.Kind of the argument for toS / SInterP;
// the shape of the two values for OpEqual) and checks the violated clause.

import (
	"fmt"
	"os"
	"reflect"
	"strconv"
	"testing"
	"unsafe"
)

type rec struct{ A int }

func valueOfKind(k reflect.Kind) (any, bool) {
	var arr [2]int
	x := 3
	switch k {
	case reflect.Bool:
		return true, true
	case reflect.Int:
		return int(3), true
	case reflect.Int8:
		return int8(3), true
	case reflect.Int16:
		return int16(3), true
	case reflect.Int32:
		return int32(3), true
	case reflect.Int64:
		return int64(3), true
	case reflect.Uint:
		return uint(3), true
	case reflect.Uint8:
		return uint8(3), true
	case reflect.Uint16:
		return uint16(3), true
	case reflect.Uint32:
		return uint32(3), true
	case reflect.Uint64:
		return uint64(3), true
	case reflect.Uintptr:
		return uintptr(3), true
	case reflect.Float32:
		return float32(1.5), true
	case reflect.Float64:
		return float64(1.5), true
	case reflect.Complex64:
		return complex64(1), true
	case reflect.Complex128:
		return complex128(1), true
	case reflect.Array:
		return arr, true
	case reflect.Chan:
		return make(chan int), true
	case reflect.Func:
		return func() {}, true
	case reflect.Map:
		return map[int]int{1: 2}, true
	case reflect.Pointer:
		return &x, true
	case reflect.Slice:
		return []int{1, 2}, true
	case reflect.String:
		return "abc", true
	case reflect.Struct:
		return rec{1}, true
	case reflect.UnsafePointer:
		return unsafe.Pointer(&x), true
	case reflect.Invalid:
		return nil, true
	}
	return nil, false
}

func expectedToS(v any) string {
	rv := reflect.ValueOf(v)
	switch {
	case rv.IsValid() && rv.CanInt():
		return strconv.FormatInt(rv.Int(), 10)
	case rv.IsValid() && rv.CanUint():
		return strconv.FormatUint(rv.Uint(), 10)
	case rv.IsValid() && rv.CanFloat():
		return fmt.Sprintf("%f", rv.Float())
	case rv.IsValid() && rv.Kind() == reflect.String:
		return rv.String()
	}
	return fmt.Sprintf("%v", v)
}

func tryToS(k reflect.Kind) string {
	v, ok := valueOfKind(k)
	if !ok {
		return ""
	}
	msg := ""
	func() {
		defer func() {
			if r := recover(); r != nil {
				msg = fmt.Sprintf("frt.SInterP(\"<%%s>\", %T(%v)) panics: %v (C14/C11: SInterP formats integers of every kind, floats, strings and other values without failing)", v, v, r)
			}
		}()
		got := SInterP("<%s>", v)
		want := "<" + expectedToS(v) + ">"
		if got != want {
			msg = fmt.Sprintf("frt.SInterP(\"<%%s>\", %T(%v)) = %q, specification gives %q", v, v, got, want)
		}
	}()
	return msg
}

func TestVerifReplay(t *testing.T) {
	what := os.Getenv("VERIF_REPLAY_WHAT")
	switch what {
	case "toS":
		k, _ := strconv.Atoi(os.Getenv("VERIF_REPLAY_KIND"))
		if msg := tryToS(reflect.Kind(k)); msg != "" {
			fmt.Printf("REPLAY-REPRODUCED source=model input=kind:%d(%s)\n  %s\n", k, reflect.Kind(k), msg)
			return
		}
		fmt.Printf("REPLAY-MODEL-INPUT-PASSES input=kind:%d\n", k)
		for kk := reflect.Invalid; kk <= reflect.UnsafePointer; kk++ {
			if msg := tryToS(kk); msg != "" {
				fmt.Printf("REPLAY-REPRODUCED source=witness-search input=kind:%d(%s)\n  %s\n", kk, kk, msg)
				return
			}
		}
		fmt.Println("REPLAY-NOT-REPRODUCED tried=27")
	default:
		replayMore(what)
	}
}
