package slice

// Replay harness for package slice, injected by /verif's checker with `go test -overlay` (nothing is
// written into /repo).  It runs the REAL functions on concrete inputs built from a solver model
// (exact len / cap / offset of every slice argument) and checks the violated contract clause with
// an executable specification:
//   - C12: every cell of every backing array that existed before the call (up to cap, including the
//     cells before the offset) is unchanged, and a value produced by an earlier call keeps its contents;
//   - C13: the result equals an independent reference implementation; panics exactly outside the domain.
// When the model's own input does not reproduce, it enumerates the small neighbourhood of inputs
// (only to attach a failing input to an obligation that already failed; never to decide a property).

import (
	"encoding/json"
	"fmt"
	"os"
	"reflect"
	"sort"
	"testing"

	"github.com/karino2/folang/pkg/frt"
)

type rcase struct {
	Func string `json:"func"`
	Len1 int    `json:"len1"`
	Cap1 int    `json:"cap1"`
	Off1 int    `json:"off1"`
	Len2 int    `json:"len2"`
	Cap2 int    `json:"cap2"`
	Off2 int    `json:"off2"`
	N    int    `json:"n"`
	Cb   int    `json:"cb"`
	Pat  int    `json:"pat"`
}

type backing struct {
	arr  []int
	snap []int
}

func mkSlice(off, ln, cp, pat, base int) ([]int, *backing) {
	if cp < ln {
		cp = ln
	}
	total := off + cp
	arr := make([]int, total+1) // one guard cell past cap is never reachable by append; kept for symmetry
	for i := range arr {
		switch pat {
		case 0:
			arr[i] = base + i
		case 1:
			arr[i] = base + (i % 2)
		case 2:
			arr[i] = base + 100 - i
		case 4:
			arr[i] = base + i/2
		case 5:
			arr[i] = base + (i*i)%3
		default:
			arr[i] = base + (i*7)%5
		}
	}
	b := &backing{arr: arr, snap: append([]int(nil), arr...)}
	return arr[off : off+ln : off+cp], b
}

func (b *backing) changed() (int, bool) {
	for i := range b.arr {
		if b.arr[i] != b.snap[i] {
			return i, true
		}
	}
	return 0, false
}

var cbsInt = []func(int) int{
	func(x int) int { return 2*x + 1 },
	func(x int) int { return -x },
	func(x int) int { return x % 3 },
	func(x int) int { return 7 },
}
var cbsPred = []func(int) bool{
	func(x int) bool { return x%2 == 0 },
	func(x int) bool { return x%3 == 1 },
	func(x int) bool { return true },
	func(x int) bool { return false },
}

type outcome struct {
	res      any
	panicked bool
	trace    []int
}

func protect(f func() any) (o outcome) {
	defer func() {
		if r := recover(); r != nil {
			o.panicked = true
		}
	}()
	o.res = f()
	return
}

// run calls the real function; ref computes the expected outcome independently.
func runReal(c rcase, s1, s2 []int) outcome {
	var trace []int
	f := func(x int) int { trace = append(trace, x); return cbsInt[c.Cb%4](x) }
	p := func(x int) bool { trace = append(trace, x); return cbsPred[c.Cb%4](x) }
	o := protect(func() any {
		switch c.Func {
		case "Length":
			return Length(s1)
		case "Len":
			return Len(s1)
		case "New":
			return New[int]()
		case "Item":
			return Item(c.N, s1)
		case "IsEmpty":
			return IsEmpty(s1)
		case "IsNotEmpty":
			return IsNotEmpty(s1)
		case "Last":
			return Last(s1)
		case "Head":
			return Head(s1)
		case "Tail":
			return Tail(s1)
		case "Take":
			return Take(c.N, s1)
		case "PopLast":
			return PopLast(s1)
		case "Skip":
			return Skip(c.N, s1)
		case "Map":
			return Map(f, s1)
		case "Mapi":
			return Mapi(func(i, x int) int { trace = append(trace, i, x); return i*1000 + cbsInt[c.Cb%4](x) }, s1)
		case "Iter":
			Iter(func(x int) { trace = append(trace, x) }, s1)
			return nil
		case "Filter":
			return Filter(p, s1)
		case "Sort":
			return Sort(s1)
		case "SortBy":
			return SortBy(f, s1)
		case "Zip":
			return Zip(s1, s2)
		case "Forall":
			return Forall(p, s1)
		case "Forany":
			return Forany(p, s1)
		case "PushLast":
			return PushLast(c.N, s1)
		case "PushHead":
			return PushHead(c.N, s1)
		case "Collect":
			return Collect(func(x int) []int { trace = append(trace, x); return []int{x, cbsInt[c.Cb%4](x)}[:1+(c.Cb%2)] }, s1)
		case "Concat":
			return Concat([][]int{s1, s2, s1})
		case "Append":
			return Append(s1, s2)
		case "Distinct":
			return Distinct(s1)
		case "TryFind":
			return TryFind(p, s1)
		case "Fold":
			return Fold(func(a, x int) int { trace = append(trace, x); return a*31 + cbsInt[c.Cb%4](x) }, c.N, s1)
		}
		panic("unknown function " + c.Func)
	})
	o.trace = trace
	return o
}

func runRef(c rcase, s1, s2 []int) outcome {
	var trace []int
	f := cbsInt[c.Cb%4]
	p := cbsPred[c.Cb%4]
	n := len(s1)
	o := protect(func() any {
		switch c.Func {
		case "Length", "Len":
			return n
		case "New":
			return []int{}
		case "Item":
			if c.N < 0 || c.N >= n {
				panic("domain")
			}
			return s1[c.N]
		case "IsEmpty":
			return n == 0
		case "IsNotEmpty":
			return n != 0
		case "Last":
			if n == 0 {
				panic("domain")
			}
			return s1[n-1]
		case "Head":
			if n == 0 {
				panic("domain")
			}
			return s1[0]
		case "Tail":
			if n == 0 {
				panic("domain")
			}
			r := []int{}
			for i := 1; i < n; i++ {
				r = append(r, s1[i])
			}
			return r
		case "PopLast":
			if n == 0 {
				panic("domain")
			}
			r := []int{}
			for i := 0; i < n-1; i++ {
				r = append(r, s1[i])
			}
			return r
		case "Take":
			r := []int{}
			for i := 0; i < c.N; i++ {
				r = append(r, s1[i])
			}
			return r
		case "Skip":
			r := []int{}
			for i := c.N; i < n; i++ {
				r = append(r, s1[i])
			}
			return r
		case "Map":
			r := []int{}
			for i := 0; i < n; i++ {
				trace = append(trace, s1[i])
				r = append(r, f(s1[i]))
			}
			return r
		case "Mapi":
			r := []int{}
			for i := 0; i < n; i++ {
				trace = append(trace, i, s1[i])
				r = append(r, i*1000+f(s1[i]))
			}
			return r
		case "Iter":
			for i := 0; i < n; i++ {
				trace = append(trace, s1[i])
			}
			return nil
		case "Filter":
			r := []int{}
			for i := 0; i < n; i++ {
				trace = append(trace, s1[i])
				if p(s1[i]) {
					r = append(r, s1[i])
				}
			}
			return r
		case "Sort":
			r := append([]int{}, s1...)
			sort.Ints(r)
			return r
		case "SortBy":
			// any ascending-by-key permutation is acceptable: compared specially below
			r := append([]int{}, s1...)
			sort.SliceStable(r, func(i, j int) bool { return f(r[i]) < f(r[j]) })
			return r
		case "Zip":
			if len(s1) != len(s2) {
				panic("domain")
			}
			r := []frt.Tuple2[int, int]{}
			for i := 0; i < n; i++ {
				r = append(r, frt.Tuple2[int, int]{E0: s1[i], E1: s2[i]})
			}
			return r
		case "Forall":
			for i := 0; i < n; i++ {
				trace = append(trace, s1[i])
				if !p(s1[i]) {
					return false
				}
			}
			return true
		case "Forany":
			for i := 0; i < n; i++ {
				trace = append(trace, s1[i])
				if p(s1[i]) {
					return true
				}
			}
			return false
		case "PushLast":
			r := append([]int{}, s1...)
			return append(r, c.N)
		case "PushHead":
			r := []int{c.N}
			return append(r, s1...)
		case "Collect":
			r := []int{}
			for i := 0; i < n; i++ {
				trace = append(trace, s1[i])
				r = append(r, []int{s1[i], f(s1[i])}[:1+(c.Cb%2)]...)
			}
			return r
		case "Concat":
			r := []int{}
			r = append(r, s1...)
			r = append(r, s2...)
			r = append(r, s1...)
			return r
		case "Append":
			r := []int{}
			r = append(r, s1...)
			return append(r, s2...)
		case "Distinct":
			r := []int{}
			for i := 0; i < n; i++ {
				dup := false
				for j := 0; j < i; j++ {
					if s1[j] == s1[i] {
						dup = true
					}
				}
				if !dup {
					r = append(r, s1[i])
				}
			}
			return r
		case "TryFind":
			for i := 0; i < n; i++ {
				trace = append(trace, s1[i])
				if p(s1[i]) {
					return frt.Tuple2[int, bool]{E0: s1[i], E1: true}
				}
			}
			return frt.Tuple2[int, bool]{E0: 0, E1: false}
		case "Fold":
			a := c.N
			for i := 0; i < n; i++ {
				trace = append(trace, s1[i])
				a = a*31 + f(s1[i])
			}
			return a
		}
		panic("unknown function " + c.Func)
	})
	o.trace = trace
	return o
}

func inDomain(c rcase) bool {
	switch c.Func {
	case "Take", "Skip":
		return 0 <= c.N && c.N <= c.Len1
	}
	return true
}

func sameSeq(a, b any) bool {
	va, vb := reflect.ValueOf(a), reflect.ValueOf(b)
	if !va.IsValid() || !vb.IsValid() {
		return va.IsValid() == vb.IsValid()
	}
	if va.Kind() == reflect.Slice && vb.Kind() == reflect.Slice {
		if va.Len() != vb.Len() {
			return false
		}
		for i := 0; i < va.Len(); i++ {
			if !reflect.DeepEqual(va.Index(i).Interface(), vb.Index(i).Interface()) {
				return false
			}
		}
		return true
	}
	return reflect.DeepEqual(a, b)
}

// checkCase returns a description of the first violated clause, or "".
func checkCase(c rcase) string {
	if !inDomain(c) {
		return ""
	}
	s1, b1 := mkSlice(c.Off1, c.Len1, c.Cap1, c.Pat, 10)
	s2, b2 := mkSlice(c.Off2, c.Len2, c.Cap2, c.Pat, 50)
	in1 := append([]int(nil), s1...)
	in2 := append([]int(nil), s2...)
	exp := runRef(c, in1, in2)
	got := runReal(c, s1, s2)
	// C12, direct: no pre-existing cell written
	if i, ch := b1.changed(); ch {
		return fmt.Sprintf("C12 frame: %s wrote cell %d of the backing array of its first slice argument (len=%d cap=%d off=%d): %v -> %v", c.Func, i, c.Len1, c.Cap1, c.Off1, b1.snap, b1.arr)
	}
	if i, ch := b2.changed(); ch {
		return fmt.Sprintf("C12 frame: %s wrote cell %d of the backing array of its second slice argument: %v -> %v", c.Func, i, b2.snap, b2.arr)
	}
	// C13: panics exactly outside the domain, result equals the reference
	if got.panicked != exp.panicked {
		return fmt.Sprintf("C13 domain: %s panicked=%v, specification says %v (len1=%d len2=%d n=%d)", c.Func, got.panicked, exp.panicked, c.Len1, c.Len2, c.N)
	}
	if !got.panicked {
		ok := sameSeq(got.res, exp.res)
		if c.Func == "SortBy" && !ok {
			// accept any permutation that is ascending by key
			g, _ := got.res.([]int)
			e, _ := exp.res.([]int)
			if len(g) == len(e) {
				gs := append([]int{}, g...)
				es := append([]int{}, e...)
				sort.Ints(gs)
				sort.Ints(es)
				asc := true
				for i := 1; i < len(g); i++ {
					if cbsInt[c.Cb%4](g[i-1]) > cbsInt[c.Cb%4](g[i]) {
						asc = false
					}
				}
				ok = asc && reflect.DeepEqual(gs, es)
			}
		}
		if !ok {
			return fmt.Sprintf("C13 result: %s(%v, %v, n=%d, cb=%d) = %v, specification gives %v", c.Func, in1, in2, c.N, c.Cb, got.res, exp.res)
		}
		if !reflect.DeepEqual(got.trace, exp.trace) && !(len(got.trace) == 0 && len(exp.trace) == 0) && c.Func != "SortBy" {
			return fmt.Sprintf("C13 callback order: %s called its function argument on %v, specification says %v", c.Func, got.trace, exp.trace)
		}
	}
	// C12, history: a value produced by one call keeps its contents across later calls on the same source
	if !got.panicked {
		if first, ok := got.res.([]int); ok {
			keep := append([]int(nil), first...)
			c2 := c
			c2.N = c.N + 1
			runReal(c2, s1, s2)
			runReal(c, s1, s2)
			if !reflect.DeepEqual(keep, first) && !(len(keep) == 0 && len(first) == 0) {
				return fmt.Sprintf("C12 history: a := %s(.., s) gave %v; after two more calls of %s on the same s (len=%d cap=%d) a reads %v", c.Func, keep, c.Func, c.Len1, c.Cap1, first)
			}
			// and using the result as the source of a later call must not change its sibling
			if len(first) > 0 {
				sib := PopLast(first)
				keepSib := append([]int(nil), first...)
				_ = sib
				runRealOn(c, sib)
				if !reflect.DeepEqual(keepSib, first) {
					return fmt.Sprintf("C12 history: a := %s(..) = %v; calling %s on PopLast(a) changed a to %v", c.Func, keepSib, c.Func, first)
				}
			}
		}
	}
	return ""
}

func runRealOn(c rcase, s []int) {
	runReal(c, s, s)
}

func TestVerifReplay(t *testing.T) {
	raw := os.Getenv("VERIF_REPLAY_CASE")
	if raw == "" {
		t.Skip("no case")
	}
	var c rcase
	if err := json.Unmarshal([]byte(raw), &c); err != nil {
		t.Fatal(err)
	}
	if msg := checkCase(c); msg != "" {
		b, _ := json.Marshal(c)
		fmt.Printf("REPLAY-REPRODUCED source=model input=%s\n  %s\n", b, msg)
		return
	}
	fmt.Printf("REPLAY-MODEL-INPUT-PASSES input=%s\n", raw)
	// witness search in the neighbourhood (bounded; only to attach an input)
	tried := 0
	for l1 := 0; l1 <= 4; l1++ {
		for sp1 := 0; sp1 <= 2; sp1++ {
			for o1 := 0; o1 <= 1; o1++ {
				for l2 := 0; l2 <= 3; l2++ {
					for sp2 := 0; sp2 <= 1; sp2++ {
						for n := -1; n <= 5; n++ {
							for cb := 0; cb < 4; cb++ {
								for pat := 0; pat < 6; pat++ {
									cc := rcase{Func: c.Func, Len1: l1, Cap1: l1 + sp1, Off1: o1, Len2: l2, Cap2: l2 + sp2, Off2: 0, N: n, Cb: cb, Pat: pat}
									tried++
									if msg := checkCase(cc); msg != "" {
										b, _ := json.Marshal(cc)
										fmt.Printf("REPLAY-REPRODUCED source=witness-search tried=%d input=%s\n  %s\n", tried, b, msg)
										return
									}
								}
							}
						}
					}
				}
			}
		}
	}
	fmt.Printf("REPLAY-NOT-REPRODUCED tried=%d\n", tried)
}
