package main

// C15 parser half, BOUNDED stand-in (labelled bounded in the evidence, never counted as proved): every
// type expression of the documented grammar up to depth 2 over the base types, slices, 2/3-tuples and
// function types, with minimal and with redundant parentheses, in three syntactic positions (parameter
// annotation, record field, union payload), through the REAL parser and emitter against a reference
// translation written from the documentation.

import (
	"fmt"
	"os"
	"strings"
	"testing"
)

type c15t struct {
	kind string // base unit slice tuple func
	name string
	sub  []*c15t
}

// level of the node in the grammar: 0 ATOM, 1 TERM, 2 ELEM, 3 TYPE
func (t *c15t) level() int {
	switch t.kind {
	case "slice":
		return 1
	case "tuple":
		return 2
	case "func":
		return 3
	}
	return 0
}

func (t *c15t) src(need int, redundant bool) string {
	var s string
	switch t.kind {
	case "base":
		s = t.name
	case "unit":
		s = "()"
	case "slice":
		s = "[]" + t.sub[0].src(1, redundant)
	case "tuple":
		var ps []string
		for _, e := range t.sub {
			ps = append(ps, e.src(1, redundant))
		}
		s = strings.Join(ps, "*")
	case "func":
		var ps []string
		for _, e := range t.sub {
			ps = append(ps, e.src(2, redundant))
		}
		s = strings.Join(ps, "->")
	}
	if t.level() > need || (redundant && t.kind == "base") {
		return "(" + s + ")"
	}
	return s
}

func (t *c15t) golang() string {
	switch t.kind {
	case "base":
		if t.name == "float" {
			return "float64"
		}
		return t.name
	case "unit":
		return ""
	case "slice":
		return "[]" + t.sub[0].golang()
	case "tuple":
		var ps []string
		for _, e := range t.sub {
			ps = append(ps, e.golang())
		}
		return fmt.Sprintf("frt.Tuple%d[%s]", len(t.sub), strings.Join(ps, ", "))
	case "func":
		var ps []string
		for _, e := range t.sub[:len(t.sub)-1] {
			ps = append(ps, e.golang())
		}
		r := t.sub[len(t.sub)-1].golang()
		if r != "" {
			r = " " + r
		}
		return "func (" + strings.Join(ps, ",") + ")" + r
	}
	return "?"
}

func c15gen(depth int) []*c15t {
	var res []*c15t
	for _, b := range []string{"int", "string", "bool", "float", "any"} {
		res = append(res, &c15t{kind: "base", name: b})
	}
	if depth == 0 {
		return res
	}
	sub := c15gen(depth - 1)
	small := sub
	if len(small) > 9 {
		// keep the enumeration finite but varied: base types + every composite shape of the lower level
		var keep []*c15t
		seen := map[string]int{}
		for _, t := range sub {
			if t.kind == "base" && t.name != "int" && t.name != "string" {
				continue
			}
			k := t.kind
			if len(t.sub) > 0 {
				k += fmt.Sprint(len(t.sub)) + t.sub[0].kind + t.sub[len(t.sub)-1].kind
			}
			if seen[k] < 2 {
				seen[k]++
				keep = append(keep, t)
			}
		}
		small = keep
	}
	unit := &c15t{kind: "unit"}
	for _, a := range small {
		res = append(res, &c15t{kind: "slice", sub: []*c15t{a}})
	}
	for _, a := range small {
		for _, b := range small {
			res = append(res, &c15t{kind: "tuple", sub: []*c15t{a, b}})
			res = append(res, &c15t{kind: "func", sub: []*c15t{a, b}})
		}
	}
	for _, a := range small[:min(len(small), 4)] {
		for _, b := range small[:min(len(small), 4)] {
			for _, c := range small[:min(len(small), 3)] {
				res = append(res, &c15t{kind: "tuple", sub: []*c15t{a, b, c}})
				res = append(res, &c15t{kind: "func", sub: []*c15t{a, b, c}})
			}
		}
	}
	for _, a := range small {
		res = append(res, &c15t{kind: "func", sub: []*c15t{unit, a}})
		res = append(res, &c15t{kind: "func", sub: []*c15t{a, unit}})
	}
	return res
}

func c15try(src string) (out string, ok bool) {
	defer func() {
		if r := recover(); r != nil {
			ok = false
			out = fmt.Sprint(r)
		}
	}()
	ps := initParse(src)
	res := ParseAll(ps)
	return RootStmtsToGo(res.E1), true
}

func c15run() (n int, msg string) {
	for _, t := range c15gen(2) {
		for _, red := range []bool{false, true} {
			s := t.src(3, red)
			want := t.golang()
			progs := []struct{ pos, src, expect string }{
				{"parameter annotation", "package main\n\nlet f (a:" + s + ") =\n  1\n", "func f(a " + want + ") int"},
				{"record field", "package main\n\ntype R = {F: " + s + "}\n", "  F " + want + "\n"},
				{"union payload", "package main\n\ntype U =\n  | A of " + s + "\n  | B\n", "  Value " + want + "\n"},
			}
			for _, p := range progs {
				if t.kind == "unit" {
					continue
				}
				n++
				out, ok := c15try(p.src)
				if !ok {
					return n, fmt.Sprintf("type expression %q as %s: fc rejects it (%s); documented Go type: %q", s, p.pos, out, want)
				}
				if !strings.Contains(out, p.expect) {
					return n, fmt.Sprintf("type expression %q as %s: emitted\n%s\n   the documentation gives the Go type %q", s, p.pos, strings.TrimSpace(out), want)
				}
			}
		}
	}
	return n, ""
}

func TestVerifBoundedC15(t *testing.T) {
	if os.Getenv("VERIF_BOUNDED_C15") == "" {
		t.Skip()
	}
	n, msg := c15run()
	if msg != "" {
		fmt.Printf("BOUNDED-C15 FAIL after %d cases\n  %s\n", n, msg)
		return
	}
	fmt.Printf("BOUNDED-C15 OK cases=%d\n", n)
}
