package main

// Replay harness for the hand-written scanners of fc (wrapper.go), injected with `go test -overlay`.
// Runs the REAL scanner on the byte string and position taken from the solver model, with a wall-clock
// bound (a hang is a termination violation), and checks the scanner's contract clauses executably.
// If the model's input passes, a bounded witness search over short strings of a small alphabet is run
// (only to attach an input to an obligation that already failed).

import (
	"encoding/hex"
	"fmt"
	"os"
	"strconv"
	"testing"
	"time"
)

type scanOut struct {
	tk       Token
	panicked bool
	pmsg     string
	hung     bool
}

func runScanner(fn string, buf string, pos int) scanOut {
	ch := make(chan scanOut, 1)
	go func() {
		var o scanOut
		defer func() {
			if r := recover(); r != nil {
				o.panicked = true
				o.pmsg = fmt.Sprint(r)
			}
			ch <- o
		}()
		switch fn {
		case "scanSpaceToken":
			o.tk = scanSpaceToken(buf, pos)
		case "scanIdentifierToken":
			o.tk = scanIdentifierToken(buf, pos)
		case "scanIntImmToken":
			o.tk = scanIntImmToken(buf, pos)
		case "scanStringLiteralToken":
			o.tk = scanStringLiteralToken(buf, pos)
		case "scanRawStringLiteralToken":
			o.tk = scanRawStringLiteralToken(buf, pos)
		case "scanTokenAt":
			o.tk = scanTokenAt(buf, pos)
		case "nextToken":
			o.tk = nextToken(buf, Token{New_TokenType_ILLEGAL, pos, 0, "", 0})
		case "searchForward":
			r := searchForward(buf, pos, "*/")
			o.tk = Token{New_TokenType_ILLEGAL, pos, r, "", 0}
		case "isStringAt":
			r := isStringAt(buf, pos, "/*")
			want := pos+2 <= len(buf) && buf[pos] == '/' && buf[pos+1] == '*'
			if r != want {
				panic(fmt.Sprintf("isStringAt returned %v, specification gives %v", r, want))
			}
			o.tk = Token{New_TokenType_ILLEGAL, pos, 0, "", 0}
		case "reinterpretEscape":
			reinterpretEscape(buf)
			o.tk = Token{New_TokenType_ILLEGAL, pos, 0, "", 0}
		case "PosToFilePosInfo":
			PosToFilePosInfo(buf, pos)
			o.tk = Token{New_TokenType_ILLEGAL, pos, 0, "", 0}
		case "ParseSInterP":
			ParseSInterP(buf)
			o.tk = Token{New_TokenType_ILLEGAL, pos, 0, "", 0}
		case "newTkz", "tkzNext":
			tkz := newTkz(buf)
			for k := 0; k < len(buf)+2; k++ {
				tkz = tkzNext(tkz)
			}
			o.tk = Token{New_TokenType_ILLEGAL, pos, 0, "", 0}
		default:
			panic("no replay case for " + fn)
		}
	}()
	select {
	case o := <-ch:
		return o
	case <-time.After(2 * time.Second):
		return scanOut{hung: true}
	}
}

var panicsNever = map[string]bool{"isStringAt": true, "searchForward": true, "scanIdentifierToken": true, "PosToFilePosInfo": true}

func needsPos(fn string, buf string, pos int) bool {
	switch fn {
	case "scanSpaceToken", "scanTokenAt", "nextToken", "searchForward", "isStringAt", "PosToFilePosInfo":
		return 0 <= pos && pos <= len(buf)
	case "reinterpretEscape", "ParseSInterP", "newTkz", "tkzNext":
		return pos == 0
	}
	return 0 <= pos && pos < len(buf)
}

// checkScan returns a description of the first violated clause, or "".
// checkColumns (C06 L1): walk the real tokenizer over buf and compare its column with the offset of the
// token in its physical line, wherever the contract states it (no newline inside the skipped region or
// the previous token: the carve-out of known finding F9).
func checkColumns(buf string) (msg string) {
	defer func() {
		if r := recover(); r != nil {
			msg = "" // scanner diagnostics (unclosed comment, unknown byte) are panics: fine
		}
	}()
	lineStart := func(p int) int {
		q := p
		for q > 0 && buf[q-1] != '\n' {
			q--
		}
		return q
	}
	noNL := func(a, b int) bool {
		for k := a; k < b && k < len(buf); k++ {
			if buf[k] == '\n' {
				return false
			}
		}
		return true
	}
	tkz := newTkz(buf)
	if noNL(0, tkz.current.begin) && tkz.col != tkz.current.begin-lineStart(tkz.current.begin) {
		return fmt.Sprintf("newTkz(%q): first token at offset %d has column %d, its offset in the line is %d", buf, tkz.current.begin, tkz.col, tkz.current.begin-lineStart(tkz.current.begin))
	}
	ok := noNL(0, tkz.current.begin)
	for k := 0; k < len(buf)+2; k++ {
		prev := tkz
		tkz = tkzNext(tkz)
		from := prev.current.begin
		if prev.current.ttype == New_TokenType_EOL {
			from++
			ok = true // a line break resets the column
		}
		if !noNL(from, tkz.current.begin) {
			ok = false // carve-out: newline inside the skipped region / previous token
			continue
		}
		if ok && tkz.col != tkz.current.begin-lineStart(tkz.current.begin) {
			return fmt.Sprintf("tokenizer over %q: token at offset %d has column %d, its offset in the physical line is %d (C06: the column the offside rule compares is the token's offset in its line)", buf, tkz.current.begin, tkz.col, tkz.current.begin-lineStart(tkz.current.begin))
		}
		if tkz.current.ttype == New_TokenType_EOF {
			break
		}
	}
	return ""
}

func checkScan(fn string, buf string, pos int) string {
	if !needsPos(fn, buf, pos) {
		return ""
	}
	if fn == "newTkz" || fn == "tkzNext" {
		return checkColumns(buf)
	}
	if fn == "ParseSInterP" {
		return checkSInterP(buf)
	}
	if fn == "scanRawStringLiteralToken" || fn == "scanStringLiteralToken" {
		if m := checkLiteralToken(fn, buf, pos); m != "" {
			return m
		}
	}
	o := runScanner(fn, buf, pos)
	if o.hung {
		return fmt.Sprintf("C16 termination: %s(%q, %d) did not return within 2s (hang)", fn, buf, pos)
	}
	if o.panicked {
		if panicsNever[fn] {
			return fmt.Sprintf("%s(%q, %d) panics (%s) although its contract says panics never", fn, buf, pos, o.pmsg)
		}
		return ""
	}
	tk := o.tk
	switch fn {
	case "scanSpaceToken", "scanIdentifierToken", "scanIntImmToken", "scanStringLiteralToken", "scanRawStringLiteralToken":
		if tk.begin != pos {
			return fmt.Sprintf("%s(%q, %d): token begins at %d, not at pos", fn, buf, pos, tk.begin)
		}
		if tk.len < 0 || pos+tk.len > len(buf) {
			return fmt.Sprintf("%s(%q, %d): token extent [%d,%d) leaves the buffer (len %d)", fn, buf, pos, tk.begin, tk.begin+tk.len, len(buf))
		}
	case "scanTokenAt", "nextToken":
		if tk.len < 0 || tk.begin+tk.len > len(buf) || tk.begin < pos {
			return fmt.Sprintf("%s(%q, %d): token extent [%d,%d) is not inside [pos, len %d]", fn, buf, pos, tk.begin, tk.begin+tk.len, len(buf))
		}
		if tk.ttype != New_TokenType_EOF && tk.len < 1 {
			return fmt.Sprintf("%s(%q, %d): no progress: non-EOF token %v of length %d", fn, buf, pos, tk.ttype, tk.len)
		}
		if fn == "scanTokenAt" && pos < len(buf) && (buf[pos] == ' ' || buf[pos] == '\t' || (pos+1 < len(buf) && buf[pos] == '/' && (buf[pos+1] == '/' || buf[pos+1] == '*'))) && tk.ttype != New_TokenType_SPACE {
			return fmt.Sprintf("scanTokenAt(%q, %d) returns a %v token where a blank or comment starts (C06: blanks and comments are folded into SPACE tokens)", buf, pos, tk.ttype)
		}
		if fn == "nextToken" && tk.ttype == New_TokenType_SPACE {
			return fmt.Sprintf("nextToken(%q, end=%d) returned a SPACE token", buf, pos)
		}
	case "searchForward":
		r := tk.len
		want := -1
		for p := pos; p+2 <= len(buf); p++ {
			if buf[p] == '*' && buf[p+1] == '/' {
				want = p
				break
			}
		}
		if r != want {
			return fmt.Sprintf("searchForward(%q, %d, \"*/\") = %d, specification gives %d", buf, pos, r, want)
		}
	}
	return ""
}

func TestVerifReplay(t *testing.T) {
	fn := os.Getenv("VERIF_REPLAY_FUNC")
	if fn == "" {
		t.Skip("no case")
	}
	raw, _ := hex.DecodeString(os.Getenv("VERIF_REPLAY_BUF"))
	buf := string(raw)
	pos, _ := strconv.Atoi(os.Getenv("VERIF_REPLAY_POS"))
	if os.Getenv("VERIF_REPLAY_HAVEMODEL") == "1" {
		if msg := checkScan(fn, buf, pos); msg != "" {
			fmt.Printf("REPLAY-REPRODUCED source=model input=%s(%q, %d)\n  %s\n", fn, buf, pos, msg)
			return
		}
		fmt.Printf("REPLAY-MODEL-INPUT-PASSES input=%s(%q, %d)\n", fn, buf, pos)
	}
	alpha := []byte{' ', '/', '*', '\n', 'a', '"', '\\', '`', '{', '}', '1', '$', '\t', '%'}
	tried := 0
	var rec func(prefix []byte, depth int) string
	rec = func(prefix []byte, depth int) string {
		for p := 0; p <= len(prefix); p++ {
			tried++
			if msg := checkScan(fn, string(prefix), p); msg != "" {
				return fmt.Sprintf("input=%s(%q, %d)\n  %s", fn, string(prefix), p, msg)
			}
		}
		if depth == 0 {
			return ""
		}
		for _, c := range alpha {
			if m := rec(append(append([]byte{}, prefix...), c), depth-1); m != "" {
				return m
			}
		}
		return ""
	}
	for d := 0; d <= 4; d++ {
		if m := rec(nil, d); m != "" {
			fmt.Printf("REPLAY-REPRODUCED source=witness-search tried=%d %s\n", tried, m)
			return
		}
	}
	fmt.Printf("REPLAY-NOT-REPRODUCED tried=%d\n", tried)
}

// refSInterP: the documented translation of an interpolated-string body (C11): \\{ and \\} -> the brace,
// other escapes passed through, {name} -> %s + variable, % -> %%, every other byte itself.
func refSInterP(buf string) (format string, vars []string, ok bool) {
	i := 0
	for i < len(buf) {
		c := buf[i]
		switch {
		case c == '\\':
			if i+1 >= len(buf) {
				return "", nil, false
			}
			c2 := buf[i+1]
			if c2 == '{' || c2 == '}' {
				format += string(c2)
			} else {
				format += string(c) + string(c2)
			}
			i += 2
		case c == '{':
			j := i + 1
			for j < len(buf) && buf[j] != '}' {
				j++
			}
			if j >= len(buf) {
				return "", nil, false
			}
			vars = append(vars, buf[i+1:j])
			format += "%s"
			i = j + 1
		case c == '%':
			format += "%%"
			i++
		default:
			format += string(c)
			i++
		}
	}
	return format, vars, true
}

func checkSInterP(buf string) (msg string) {
	wf, wv, wok := refSInterP(buf)
	defer func() {
		if r := recover(); r != nil {
			if wok {
				msg = fmt.Sprintf("ParseSInterP(%q) panics (%v) although the body is well formed", buf, r)
			}
		}
	}()
	got := ParseSInterP(buf)
	if !wok {
		return ""
	}
	if got.E0 != wf || fmt.Sprint(got.E1) != fmt.Sprint(wv) {
		return fmt.Sprintf("ParseSInterP(%q) = (%q, %q), the documented translation is (%q, %q) (C11: \\{ \\} are literal braces, %% is preserved, {name} is a hole)", buf, got.E0, got.E1, wf, wv)
	}
	return ""
}

// checkLiteralToken: value of a string / raw-string token against the statement.
func checkLiteralToken(fn string, buf string, pos int) (msg string) {
	defer func() { recover() }()
	if pos < 0 || pos >= len(buf) {
		return ""
	}
	if fn == "scanRawStringLiteralToken" {
		if buf[pos] != '`' {
			return ""
		}
		tk := scanRawStringLiteralToken(buf, pos)
		body := buf[pos+1 : pos+tk.len-1]
		want := ""
		for i := 0; i < len(body); i++ {
			switch body[i] {
			case '\\':
				want += "\\\\"
			case '"':
				want += "\\\""
			case '\n':
				want += "\\n"
			default:
				want += string(body[i])
			}
		}
		if tk.stringVal != want {
			return fmt.Sprintf("raw string token of %q at %d: value %q, re-escaping of the body %q gives %q", buf, pos, tk.stringVal, body, want)
		}
		return ""
	}
	if buf[pos] != '"' {
		return ""
	}
	tk := scanStringLiteralToken(buf, pos)
	// first unescaped quote
	e := pos + 1
	for e < len(buf) && buf[e] != '"' {
		if buf[e] == '\\' {
			e++
		}
		e++
	}
	if e < len(buf) && (tk.len != e-pos+1 || tk.stringVal != buf[pos+1:e]) {
		return fmt.Sprintf("string token of %q at %d: length %d value %q, the literal ends at the first unescaped quote (offset %d) with value %q", buf, pos, tk.len, tk.stringVal, e, buf[pos+1:e])
	}
	return ""
}
