package main

// Replay harness for build_sample_md, injected with `go test -overlay`.  Builds a real directory with a
// list file and sample files, runs the REAL processListFile / convOne, and compares what was written
// with an executable copy of the documented template (C18).  The first list line tried is the one
// from the solver model (if any); then a fixed set of boundary list files is enumerated (witness
// search, only to attach a failing input to an obligation that already failed).

import (
	"encoding/hex"
	"fmt"
	"os"
	"path/filepath"
	"strings"
	"testing"
)

func refSection(dir, line string) (string, bool) {
	name, title := line, line
	if i := strings.Index(line, " "); i >= 0 {
		name, title = line[:i], line[i+1:]
	}
	b, err := os.ReadFile(filepath.Join(dir, name))
	if err != nil {
		return "", false
	}
	gen := "gen_" + strings.TrimSuffix(name, ".fo") + ".go"
	return "### " + title + "\n\n```\n" + string(b) + "\n```\n\ngenerated go: [" + gen + "](./" + gen + ")\n\n", true
}

func refReadme(dir, listContent string) (string, bool) {
	var secs []string
	for _, l := range strings.Split(listContent, "\n") {
		if l == "" {
			continue
		}
		s, ok := refSection(dir, l)
		if !ok {
			return "", false
		}
		secs = append(secs, s)
	}
	return "## Folang Sample \n\n\n" + strings.Join(secs, "\n"), true
}

func tryList(t *testing.T, listContent string, files map[string]string) string {
	dir := t.TempDir()
	for n, c := range files {
		os.WriteFile(filepath.Join(dir, n), []byte(c), 0o644)
	}
	list := filepath.Join(dir, "list.txt")
	os.WriteFile(list, []byte(listContent), 0o644)
	want, wantOK := refReadme(dir, listContent)
	panicked := false
	func() {
		defer func() {
			if r := recover(); r != nil {
				panicked = true
			}
		}()
		old := os.Stdout
		devnull, _ := os.Open(os.DevNull)
		os.Stdout = devnull
		defer func() { os.Stdout = old }()
		processListFile("README.md", list)
	}()
	got, err := os.ReadFile(filepath.Join(dir, "README.md"))
	switch {
	case !wantOK && !panicked:
		return fmt.Sprintf("list %q with a missing file: the tool did not fail (README written: %v)", listContent, err == nil)
	case !wantOK && err == nil:
		return fmt.Sprintf("list %q with a missing file: a partial README was written: %q", listContent, string(got))
	case wantOK && panicked:
		return fmt.Sprintf("list %q (all files present): the tool panicked", listContent)
	case wantOK && err != nil:
		return fmt.Sprintf("list %q: README.md was not written next to the list file", listContent)
	case wantOK && string(got) != want:
		return fmt.Sprintf("list %q files %v:\n   wrote    %q\n   expected %q", listContent, files, string(got), want)
	}
	return ""
}

func TestVerifReplay(t *testing.T) {
	if os.Getenv("VERIF_REPLAY_C18") == "" {
		t.Skip()
	}
	files := map[string]string{"a.fo": "let a = 1\n", "b.fo": "x\n```\ny", "c": "no suffix", "d.fo": ""}
	var lists []string
	src := "witness-search"
	if h := os.Getenv("VERIF_REPLAY_LINE"); h != "" {
		if b, err := hex.DecodeString(h); err == nil && len(b) > 0 && !strings.ContainsAny(string(b), "\n/\x00") {
			line := string(b)
			name := line
			if i := strings.Index(line, " "); i >= 0 {
				name = line[:i]
			}
			if name != "" {
				files[name] = "content of model file\n"
				lists = append(lists, line)
				src = "model"
			}
		}
	}
	lists = append(lists,
		"a.fo", "a.fo Title", "a.fo Title with  several blanks", "a.fo Title\nb.fo Other", "b.fo B\na.fo A", "a.fo A\n\n\nb.fo B\n", "\na.fo A", "c plain",
		"c", "d.fo empty file", "a.fo A\nmissing.fo M", "missing.fo M\na.fo A", "a.fo  two blanks", "a.fo A\nb.fo B\nc C\nd.fo D", "", "\n\n")
	for i, l := range lists {
		if msg := tryList(t, l, files); msg != "" {
			s := src
			if i > 0 {
				s = "witness-search"
			}
			fmt.Printf("REPLAY-REPRODUCED source=%s tried=%d\n  %s\n", s, i+1, msg)
			return
		}
		if i == 0 && src == "model" {
			fmt.Printf("REPLAY-MODEL-INPUT-PASSES input=%q\n", l)
		}
	}
	fmt.Printf("REPLAY-NOT-REPRODUCED tried=%d\n", len(lists))
}
