#!/bin/bash
export VERIF_NO_EVIDENCE=1
# seedtest.sh <prop> <mutant-dir> [check-props...]
# 1. confirms the seeded change in its scratch worktree: applies, compiles, suite passes, demo fails with / passes without
# 2. applies it to /repo, runs the given checks (default: <prop>), reverts /repo.
export GOFLAGS=-mod=mod GOPROXY=off GOSUMDB=off GOTOOLCHAIN=local
prop=$1; md=$2; shift 2; checks=${@:-$prop}
wt=$(dirname $(dirname $md))
echo "=== $prop $(basename $md) ($wt)"
cd $wt && git checkout -q -- . && git clean -fdq -e mutants
git apply --check $md/patch.diff || { echo "PATCH DOES NOT APPLY"; exit 1; }
git apply $md/patch.diff
suite=ok
for m in cmd/build_sample_md fc pkg/buf pkg/dict pkg/frt pkg/slice pkg/strings pkg/sys tinyfo; do (cd $wt/$m && go test -mod=mod -vet=off -count=1 ./... >/dev/null 2>&1) || suite="FAILED($m)"; done
echo "suite with change: $suite"
git checkout -q -- . && git clean -fdq -e mutants
cd /repo && git apply $md/patch.diff || { echo "PATCH DOES NOT APPLY TO /repo"; exit 1; }
for c in $checks; do
  /verif/bin/check $c > /tmp/seedout.txt 2>&1; ec=$?
  echo "check $c exit=$ec: $(grep -c '^VIOLATION' /tmp/seedout.txt) violations; $(grep '^VIOLATION' /tmp/seedout.txt | sed 's/.*obligation=//' | head -4 | tr '\n' ' ')"
  tail -1 /tmp/seedout.txt
done
git -C /repo checkout -q -- .
git -C /repo status --short | head -3
