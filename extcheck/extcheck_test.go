package extcheck

// Bounded validation of the ASSUMED contracts of code outside /repo (/verif/specs/externals.spec, the
// built-in semantics of DESIGN §2.2).  Each test runs the real Go function on an exhaustively enumerated
// small universe against an executable copy of the assumed contract and prints
//   EXTCHECK <name> cases=<n> ok        or        EXTCHECK <name> cases=<n> FAIL <what>
// These runs are labelled bounded in the evidence and are never counted among the proved obligations.

import (
	"bytes"
	"cmp"
	"fmt"
	"os"
	"path/filepath"
	"reflect"
	"slices"
	"strconv"
	"strings"
	"testing"
	"unsafe"
)

func report(name string, n int, fail string) {
	if fail == "" {
		fmt.Printf("EXTCHECK %s cases=%d ok\n", name, n)
	} else {
		fmt.Printf("EXTCHECK %s cases=%d FAIL %s\n", name, n, fail)
	}
}

func strs(alpha string, maxLen int) []string {
	res := []string{""}
	cur := []string{""}
	for l := 1; l <= maxLen; l++ {
		var nxt []string
		for _, s := range cur {
			for i := 0; i < len(alpha); i++ {
				nxt = append(nxt, s+string(alpha[i]))
			}
		}
		res = append(res, nxt...)
		cur = nxt
	}
	return res
}

func TestAppend(t *testing.T) {
	n, fail := 0, ""
	for ln := 0; ln <= 4; ln++ {
		for spare := 0; spare <= 3; spare++ {
			for add := 0; add <= 3; add++ {
				n++
				back := make([]int, ln+spare+1)
				for i := range back {
					back[i] = 100 + i
				}
				s := back[: ln : ln+spare]
				extra := []int{1, 2, 3}[:add]
				r := append(s, extra...)
				inPlace := len(r) > 0 && len(s) > 0 && unsafe.SliceData(r) == unsafe.SliceData(s) || (ln == 0 && cap(s) > 0 && add > 0 && unsafe.SliceData(r) == unsafe.SliceData(s))
				fits := ln+add <= ln+spare
				if add > 0 && cap(s) > 0 && inPlace != fits {
					fail = fmt.Sprintf("append(len %d cap %d, %d elems): in place = %v, assumed %v", ln, ln+spare, add, inPlace, fits)
				}
				if len(r) != ln+add || cap(r) < len(r) {
					fail = "append: wrong length or capacity"
				}
				for i := 0; i < ln; i++ {
					if r[i] != 100+i {
						fail = "append: prefix not preserved"
					}
				}
				for i := 0; i < add; i++ {
					if r[ln+i] != extra[i] {
						fail = "append: new elements wrong"
					}
				}
				if !fits {
					for i := range back {
						if back[i] != 100+i {
							fail = "append that reallocates wrote the old array"
						}
					}
				} else if back[ln+spare] != 100+ln+spare {
					fail = "append wrote beyond cap"
				}
			}
		}
	}
	// s[:0:0] then append: always a fresh array
	a := []int{1, 2, 3}
	c := append(a[:0:0], a...)
	c[0] = 9
	n++
	if a[0] != 1 {
		fail = "append(s[:0:0], s...) shares the array of s"
	}
	report("append", n, fail)
}

func TestSortFunc(t *testing.T) {
	n, fail := 0, ""
	vals := []int{0, 1, 2}
	var rec func(cur []int, l int)
	rec = func(cur []int, l int) {
		if len(cur) == l {
			n++
			back := append([]int{77}, cur...)
			back = append(back, 88)
			w := back[1 : 1+l : 1+l]
			before := append([]int(nil), w...)
			slices.SortFunc(w, cmp.Compare[int])
			if back[0] != 77 || back[len(back)-1] != 88 {
				fail = "SortFunc wrote outside the window"
			}
			if !slices.IsSorted(w) {
				fail = "SortFunc result not ascending"
			}
			x := append([]int(nil), before...)
			y := append([]int(nil), w...)
			slices.Sort(x)
			slices.Sort(y)
			if !slices.Equal(x, y) {
				fail = "SortFunc result is not a permutation"
			}
			return
		}
		for _, v := range vals {
			rec(append(cur, v), l)
		}
	}
	for l := 0; l <= 5; l++ {
		rec(nil, l)
	}
	for _, a := range []int{-1, 0, 1} {
		for _, b := range []int{-1, 0, 1} {
			n++
			want := 0
			if a < b {
				want = -1
			} else if b < a {
				want = 1
			}
			if cmp.Compare(a, b) != want {
				fail = "cmp.Compare"
			}
		}
	}
	report("slices.SortFunc+cmp.Compare", n, fail)
}

func TestStrings(t *testing.T) {
	n, fail := 0, ""
	u := strs("a .f", 4)
	for _, s := range u {
		for _, x := range strs("a .f", 2) {
			n++
			if strings.HasSuffix(s, x) != (len(s) >= len(x) && s[len(s)-len(x):] == x) {
				fail = "HasSuffix"
			}
			if strings.HasPrefix(s, x) != (len(s) >= len(x) && s[:len(x)] == x) {
				fail = "HasPrefix"
			}
			want := s
			if len(s) >= len(x) && s[len(s)-len(x):] == x {
				want = s[:len(s)-len(x)]
			}
			if strings.TrimSuffix(s, x) != want {
				fail = "TrimSuffix"
			}
		}
		// SplitN(s, " ", 2): the two axioms of decl.spec
		n++
		parts := strings.SplitN(s, " ", 2)
		i := strings.Index(s, " ")
		if i < 0 {
			if len(parts) != 1 || parts[0] != s {
				fail = "SplitN without blank"
			}
		} else if len(parts) != 2 || parts[0] != s[:i] || parts[1] != s[i+1:] {
			fail = "SplitN with blank"
		}
		// Split / Join round trip
		if strings.Join(strings.Split(s, " "), " ") != s {
			fail = "Split/Join round trip"
		}
		// filepath.Base keeps the .fo suffix
		if strings.HasSuffix(s, ".fo") && !strings.HasSuffix(filepath.Base(s), ".fo") {
			fail = fmt.Sprintf("filepath.Base(%q) loses .fo", s)
		}
	}
	report("strings.HasSuffix/HasPrefix/TrimSuffix/SplitN/Split+filepath.Base", n, fail)
}

func TestFmtFragment(t *testing.T) {
	n, fail := 0, ""
	for _, s := range strs("a%{\"\\", 3) {
		n++
		if fmt.Sprintf("%s", s) != s || fmt.Sprintf("<%s>", s) != "<"+s+">" || fmt.Sprintf("%v", s) != s {
			fail = "%s / %v of a string is not the string"
		}
		if fmt.Sprintf("%%"+"x%sy", s) != "%x"+s+"y" {
			fail = "%% or literal text"
		}
	}
	for _, i := range []int{0, 1, -1, 42, 1 << 40, -(1 << 40)} {
		n++
		if fmt.Sprintf("%d", i) != strconv.Itoa(i) || fmt.Sprintf("%d", int64(i)) != strconv.Itoa(i) {
			fail = "%d"
		}
	}
	n++
	if fmt.Sprintf("%d", uint64(1<<63)) != "9223372036854775808" {
		fail = "%d of uint64"
	}
	report("fmt.Sprintf fragment (%s %v %d %% text)", n, fail)
}

func TestReflect(t *testing.T) {
	n, fail := 0, ""
	kinds := map[any]reflect.Kind{int(1): 2, int8(1): 3, int16(1): 4, int32(1): 5, int64(1): 6, uint(1): 7, uint8(1): 8, uint16(1): 9, uint32(1): 10, uint64(1): 11, uintptr(1): 12, float32(1): 13, float64(1): 14, "s": 24}
	for v, k := range kinds {
		n++
		rv := reflect.ValueOf(v)
		if rv.Kind() != k {
			fail = fmt.Sprintf("kind of %T is %d, assumed %d", v, rv.Kind(), k)
		}
		pan := func(f func()) (p bool) {
			defer func() {
				if recover() != nil {
					p = true
				}
			}()
			f()
			return
		}
		if pan(func() { rv.Int() }) != !(k >= 2 && k <= 6) {
			fail = fmt.Sprintf("Value.Int on %T: panic behaviour differs from the assumed precondition", v)
		}
		if pan(func() { rv.Uint() }) != !(k >= 7 && k <= 12) {
			fail = fmt.Sprintf("Value.Uint on %T", v)
		}
		if pan(func() { rv.Float() }) != !(k >= 13 && k <= 14) {
			fail = fmt.Sprintf("Value.Float on %T", v)
		}
		if pan(func() { _ = rv.String() }) {
			fail = "Value.String panics"
		}
	}
	if reflect.ValueOf(7).Int() != 7 || reflect.ValueOf("x").String() != "x" {
		fail = "reflect on boxed int / string"
	}
	report("reflect.Value.Kind/Int/Uint/Float/String", n, fail)
}

func TestBufferAndMap(t *testing.T) {
	n, fail := 0, ""
	for _, a := range strs("ab", 2) {
		for _, b := range strs("ab", 2) {
			n++
			var bb bytes.Buffer
			bb.WriteString(a)
			bb.WriteByte('x')
			bb.WriteString(b)
			if bb.String() != a+"x"+b {
				fail = "bytes.Buffer"
			}
		}
	}
	for size := 0; size <= 6; size++ {
		n++
		m := map[int]int{}
		for i := 0; i < size; i++ {
			m[i] = i * i
		}
		seen := map[int]int{}
		for k, v := range m {
			seen[k]++
			if v != k*k {
				fail = "map range value"
			}
		}
		if len(seen) != size {
			fail = "map range does not visit every key"
		}
		for _, c := range seen {
			if c != 1 {
				fail = "map range visits a key twice"
			}
		}
	}
	report("bytes.Buffer+map range", n, fail)
}

func TestFiles(t *testing.T) {
	n, fail := 0, ""
	dir := t.TempDir()
	for _, c := range []string{"", "x", "line\nline2\n"} {
		n++
		p := filepath.Join(dir, "f"+strconv.Itoa(n))
		if err := os.WriteFile(p, []byte(c), 0o644); err != nil {
			fail = "WriteFile failed on a writable path"
		}
		b, err := os.ReadFile(p)
		if err != nil || string(b) != c {
			fail = "ReadFile after WriteFile"
		}
	}
	n++
	d := filepath.Join(dir, "adir")
	os.Mkdir(d, 0o755)
	before, _ := os.ReadDir(dir)
	if err := os.WriteFile(d, []byte("x"), 0o644); err == nil {
		fail = "WriteFile onto a directory succeeds"
	}
	after, _ := os.ReadDir(dir)
	if len(before) != len(after) {
		fail = "failed WriteFile changed the directory"
	}
	n++
	if _, err := os.ReadFile(filepath.Join(dir, "missing")); err == nil {
		fail = "ReadFile of a missing file succeeds"
	}
	report("os.ReadFile/WriteFile", n, fail)
}

// Go's interpreted string literal syntax undoes the re-escaping of raw strings (C11's assumption):
// unquote("\"" + esc_raw*(t) + "\"") == t, and Sprintf(unquote(fmt_of(t))) == t for hole-free bodies.
func TestGoLiteralSyntax(t *testing.T) {
	n, fail := 0, ""
	escRaw := func(s string) string {
		var b strings.Builder
		for i := 0; i < len(s); i++ {
			switch s[i] {
			case '\\':
				b.WriteString("\\\\")
			case '"':
				b.WriteString("\\\"")
			case '\n':
				b.WriteString("\\n")
			default:
				b.WriteByte(s[i])
			}
		}
		return b.String()
	}
	for c := 1; c < 256; c++ {
		s := string([]byte{byte(c)})
		if c >= 0x80 {
			s = string(rune(c)) // multi-byte UTF-8
		}
		if c == '`' || c == '\r' {
			continue
		}
		n++
		u, err := strconv.Unquote("\"" + escRaw(s) + "\"")
		if c < 0x20 && c != '\n' && c != '\t' {
			continue // other control characters are not in the literal alphabet of the statement
		}
		if err != nil || u != s {
			fail = fmt.Sprintf("unquote(esc_raw(%q)) = %q, %v", s, u, err)
		}
	}
	for _, s := range strs("a\\\"\n%{", 3) {
		n++
		u, err := strconv.Unquote("\"" + escRaw(s) + "\"")
		if err != nil || u != s {
			fail = fmt.Sprintf("unquote(esc_raw(%q))", s)
		}
		// % doubled for the format, then Sprintf gives the text back
		f := strings.ReplaceAll(s, "%", "%%")
		if fmt.Sprintf(f) != s {
			fail = fmt.Sprintf("Sprintf of the %%-doubled text %q", s)
		}
	}
	report("Go string literal syntax + fmt %% (C11 assumption)", n, fail)
}
