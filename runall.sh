#!/bin/bash
# runs every claimed check (quick) on the current tree; used before committing evidence
cd /verif
for p in $(python3 -c "import json;print(' '.join(c['property_id'] for c in json.load(open('MANIFEST.json'))['checks']))"); do
  VERIF_SEED=${VERIF_SEED:-0} ./bin/check $p --tier ${1:-quick} | grep -v "^KNOWN" | tail -2 | cut -c1-220
done
