#!/usr/bin/env python3
# seedsave.py <id> <prop> <mutant-dir> "<needs>" "<detected-by>"  -- store a confirmed seeded change under /verif/seeded/<id>/
import sys, os, shutil, json, subprocess, glob
sid, prop, md, needs, detected = sys.argv[1:6]
dst = f"/verif/seeded/{sid}"
os.makedirs(dst, exist_ok=True)
for f in glob.glob(md + "/*"):
    if os.path.isfile(f):
        shutil.copy(f, dst)
meta = {
  "id": sid, "property": prop,
  "what_it_needs_to_manifest": needs,
  "patch": "patch.diff (git -C /repo apply /verif/seeded/%s/patch.diff; undo with git -C /repo checkout -- .)" % sid,
  "demonstration": [os.path.basename(f) for f in glob.glob(dst + "/*") if os.path.basename(f) not in ("patch.diff", "meta.json", "README.txt")],
  "confirmed_by_me": "seedtest.sh in the agent's scratch worktree: patch applies, all 9 modules' tests pass with it; the agent's README.txt (kept here) lists the demo commands (fails with the change, passes without); then applied to /repo, checks run, reverted",
  "detected_by": detected,
}
json.dump(meta, open(dst + "/meta.json", "w"), indent=1)
print("saved", dst)
