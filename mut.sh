#!/bin/bash
export VERIF_NO_EVIDENCE=1
# usage: mut.sh <prop> <file-relative-to-repo> <sed-expr>   -- apply, run check, restore (debugging aid)
prop=$1; f=/repo/$2; expr=$3
cp $f /tmp/mut.bak
sed -i "$expr" $f
if cmp -s $f /tmp/mut.bak; then echo "MUTATION DID NOT APPLY"; fi
(cd $(dirname $f) && GOFLAGS=-mod=mod go build ./... 2>&1 | head -3)
/verif/bin/check $prop | grep -v "^KNOWN" | cut -c1-200 | tail -4
cp /tmp/mut.bak $f
