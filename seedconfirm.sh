#!/bin/bash
# seedconfirm.sh <mutant-dir> <placement-dir-relative> : demo fails with the change, passes without (in the scratch worktree)
export GOFLAGS=-mod=mod GOPROXY=off GOSUMDB=off GOTOOLCHAIN=local
md=$1; place=$2
wt=$(dirname $(dirname $md))
cd $wt && git checkout -q -- . && git clean -fdq -e mutants
run_demo() {
  if ls $md/*_test.go >/dev/null 2>&1; then
    cp $md/*_test.go $wt/$place/
    (cd $wt/$place && timeout 300 go test -mod=mod -vet=off -count=1 ./... >/tmp/demo.out 2>&1); ec=$?
    rm -f $wt/$place/zz_demo*_test.go
  else
    (cd $wt && timeout 300 bash $md/demo.sh >/tmp/demo.out 2>&1); ec=$?
  fi
  return $ec
}
run_demo; echo "demo WITHOUT change: exit=$? (expect 0)"
git apply $md/patch.diff
run_demo; echo "demo WITH change: exit=$? (expect non-zero)"
git checkout -q -- . && git clean -fdq -e mutants
