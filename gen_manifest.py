#!/usr/bin/env python3
# Generates MANIFEST.json from the table below (kept next to the checks so that both stay in step).
import json, subprocess
ENV = "GOFLAGS=-mod=mod GOPROXY=off GOSUMDB=off GOTOOLCHAIN=local"
TB = ("Trusted: the home-grown VC generator fovc (Go semantics of DESIGN §2.3), go/types, z3 4.8.12 / z3 5.1.0 / cvc5 1.0; "
      "assumed contracts of code outside /repo are listed verbatim in each evidence file (coverage.trusted_base, assumptions); "
      "machine integers are mathematical; termination only where a decreases clause exists.")
claimed = {
 "C12": dict(design="§4 C12", technique="contract-based deductive verification: strong-frame postcondition + write-ownership obligations on all 29 functions of pkg/slice, heap model with explicit (array, offset, len, cap) headers, VCs by symbolic execution with loop invariants, discharged by z3/cvc5; counterexample model replayed on the real functions",
   text="Proof, for all lengths, offsets, capacities and aliasing of the arguments and all element types, that no function of package slice writes a cell of a backing array that existed before the call, and that every store goes into an array allocated by the call itself. That per-call frame is the inductive step of the history property; the induction over histories is an argument in DESIGN.md, not machine-checked."),
 "C13": dict(design="§4 C13", technique="contract-based deductive verification: functional postconditions (with ghost witness arrays and callback traces) on all 29 functions of pkg/slice, loop invariants, VCs discharged by z3/cvc5; counterexample model replayed on the real functions against an executable reference",
   text="Proof that every function of package slice returns the value its F#-List-style specification gives, for every input in its domain (all lengths, any element type, any total callback), including left-to-right callback order, Sort/SortBy = ascending permutation (against an assumed contract of slices.SortFunc), Distinct = first occurrences."),
 "C10": dict(design="§4 C10", technique="contract-based deductive verification against an ASSUMED contract of go-cmp: OpEqual/OpNotEqual postconditions (never panics, result == struct_eq, negation) proved from the options actually passed to cmp.Equal; node-shape postconditions on the compiler's newEqNeq / newBinOpCall (= and <> are emitted as calls of the table's frt.OpEqual / frt.OpNotEqual with [lhs; rhs]) and the operator-table scan; thorough tier adds a bounded differential run of the real OpEqual (labelled bounded)",
   text="Proof that OpEqual passes exactly the options under which go-cmp's documented behaviour is total structural equality with nil == empty slices, and that OpNotEqual is its negation. The contract of cmp.Equal is an assumption (go-cmp is a dependency, not code of this repository); the thorough tier validates it on a bounded universe of first-order values and says so."),
 "C14": dict(design="§4 C14", technique="contract-based deductive verification: finite-map contracts with a map heap and an assumed each-entry-once enumeration for dict, SMT-string definitions for strings, ghost buffer contents for buf, callback call traces for frt.Pipe/IfElse/IfOnly, no-panic of toS against assumed reflect preconditions; VCs discharged by z3/cvc5",
   text="Proof of the functional contract of every function of pkg/dict, pkg/strings, pkg/buf and of the frt helpers named in the statement, for all arguments; standard-library functions (strings.*, fmt.Sprintf fragment, reflect.Value accessors, bytes.Buffer, map range) enter as assumed contracts listed in the evidence."),
 "C15": dict(design="§4 C15", technique="contract-based deductive verification of the generated Go (front end B: β-reduction of closures at frt combinators, callee contracts for pkg/slice, pkg/strings, pkg/buf): FTypeToGo and its 9 helpers against the specification function go_type axiomatised from the documentation; VCs over SMT strings discharged by z3/cvc5",
   text="Proof (printer half) that FTypeToGo and its helpers emit, for every FType value, exactly the Go type text the documentation defines (go_type in specs/types.spec). The parser half (parseType builds the FType the grammar prescribes) is not decided and the evidence says so."),
 "C16": dict(design="§4 C16", technique="contract-based deductive verification: loop variants and progress/extent postconditions on every scanner and tokenizer loop of fc/wrapper.go over byte-array strings, VCs discharged by z3/cvc5; counterexample (byte string, position) read from the model with get-value and replayed on the real scanner with a wall-clock bound",
   text="Partial: proof that every scanner/tokenizer loop of wrapper.go terminates and makes progress on every byte string and keeps token extents inside the buffer. Termination of the recursive-descent parser and of type inference is not decided (two known non-terminating inputs are listed as findings in DESIGN.md)."),
 "C18": dict(design="§4 C18", technique="contract-based deductive verification of the generated Go of build_sample_md: convOne / processListFile against the documented README template over SMT strings and an abstract file system; closures passed to slice.Map are handled through the callee's functional + panic contract; VCs discharged by z3/cvc5; failing inputs replayed by running the real tool on real files",
   text="Proof that convOne returns exactly the documented section and panics exactly when the listed file is unreadable, and that processListFile writes header + one section per non-empty list line, in order, to README.md next to the list file, touching no other path, and leaves the file system untouched on any failure. Go's strings.Split/SplitN, os.ReadFile/WriteFile and path/filepath are assumed contracts."),
 "C09": dict(design="§4 C09", technique="contract-based deductive verification of the generated Go: 'panics iff some case is uncovered' on exaustiveCheck, proved through the contracts of slice.Map/Filter/Head, dict.ToDict/Add/KVs and a call-site loop invariant for the inlined slice.Fold over the effectful marking closure; z3/cvc5; failing programs found by running the real fc binary on generated union/match programs",
   text="Proof, for unions of any size and any list of arms (any order, duplicates, unknown names), that exaustiveCheck takes the diagnostic path exactly when some case of the matched union is named by no arm. That parseURules sends every default-less match through it is read from the code, not proved."),
 "C07": dict(design="§4 C07", technique="contract-based deductive verification (partial, 3 clauses): output naming and .foi handling as postconditions of transpileOne over an abstract file system, psResetTmpCtx frame/reset postcondition, root-scope guard postcondition of parseRootOneStmt, plus one syntactic obligation (parseRootLet uses its incoming state only through the reset)",
   text="Partial. Proved: gen_<base>.go naming next to the source and no file for .foi; the per-let reset zeroes the temporary counter and replaces only the type-variable context; the root guard. NOT decided: the main non-interference clause (insert/delete/reorder unrelated definitions, split into files) - it is a whole-parser property over scopes and global tables that these function contracts do not reach; the evidence says so."),
 "C08": dict(design="§4 C08", technique="contract-based deductive verification: ghost-rank contract (ghost parameter / ghost result / ghost well-grouped flag) on the mutually recursive precedence-climbing pair parseBinAfter / parseExprWithPrec with a like-contract on the function-typed parameter, node-shape postconditions on the binary-operator factory, template postcondition on binOpToGo, plus closed-world scans of the operator table literal and of the newBinOpCall call sites; z3/cvc5; failing chains found by running the real parser and emitter on enumerated operator chains",
   text="Proof, for operator chains of any length, that every binary node is built with a left operand of rank >= and a right operand of rank > its operator's rank (one fixed table, left association), that nodes keep (accumulated, new) as (left, right), that a node is emitted parenthesised in order, and that the table literal is the published one. Operands (parseTerm results) are abstract: that application binds tighter and that no operand is lost or reordered is not decided."),
 "C05": dict(design="§4 C05", technique="contract-based deductive verification: order-free, result-determining postconditions on every consumer of a dictionary enumeration (eqsUnion, eqsItems, rsRegisterNewEI, scLookupRecFacCur, exaustiveCheck) proved against dict.Keys/Values/KVs contracts that leave the order unspecified (each entry exactly once), with call-site loop invariants for the inlined slice.Iter over effectful closures; plus a closed-world scan of Go's nondeterminism sources and of the enumeration call sites; one known finding (F8) carved out by a precondition and re-run against the real binary on every check",
   text="Proof that the result of each enumeration consumer does not depend on the enumeration order (the postcondition holds for every order Go may choose and determines the observable result), and a scan showing there is no other source of nondeterminism. Known finding F8 (two records with equal field names) is excluded by an explicit carve-out precondition and reported as KNOWN-FINDING while it reproduces."),
 "C06": dict(design="§4 C06", technique="contract-based deductive verification (partial): column invariant of the tokenizer (newTkz / tkzNext) against a line_start specification function over byte-array strings, exact comparison postconditions on the offside primitives (insideOffside, isEndOfBlock, psPushOffside, psPopOffside, psCurOffside, psCurCol), scanner extent/kind contracts, plus a closed-world scan of the readers of the column and of the offside stack; one known finding (F9) carved out and re-run on the real binary",
   text="Partial. Proved for all byte strings: the column the offside rule compares is the token's byte offset in its physical line (outside the carve-out of F9), and every offside decision is a comparison of columns (so any strictly monotone re-indentation preserves every decision; a line indented less than its block ends it). NOT decided: the grammar-level layout clauses (one-line vs multi-line if, right-hand side on the next line, pipeline broken before |>), which are placements of psSkipEOL across the parser."),
 "C11": dict(design="§4 C11", technique="contract-based deductive verification: the three literal scanners and ParseSInterP of fc/wrapper.go specified as per-character transducers over byte-array strings (escape-parity specification function for the end of a \"...\" literal; ghost offset tables for the re-escaping of `...` and for the piecewise translation of $-literals), template postconditions on sinterpToGo and on the literal arms of ExprToGo, frt.SInterP / toS contracts from C14; loop invariants, VCs discharged by z3/cvc5; counterexample byte strings read from the model and replayed on the real functions",
   text="Proof for all byte strings that the literal scanners and ParseSInterP produce exactly the text the statement prescribes (literal ends at the first unescaped quote / first backtick; raw bodies re-escaped character by character; {name} -> %s + variable in order, \\{ \\} -> brace, % -> %%, every other byte itself) and that the emitters wrap it as documented. That Go's literal syntax and fmt.Sprintf then denote the same text is an assumption about Go, stated, not proved."),
}
na = {
 "C01": "whole-compiler semantic preservation needs a formal semantics of Folang and of Go plus a simulation proof through tokenizer, parser, inference and emitter; no function-level contract expresses it (DESIGN §5). Its run-time ingredients are decided under C10, C12-C14.",
 "C02": "principality of the inferred types is a meta-theorem about the unification fixpoint over mutable equivalence-class dictionaries; it needs a declarative type system and induction over constraint graphs, not contracts on functions (DESIGN §5).",
 "C04": "a statement about one concrete regeneration run of the repository's own files; there is nothing to quantify over and the deciding step is regeneration + byte comparison, i.e. testing / translation validation, a different technique (DESIGN §5).",
 "C17": "same obstacle as C01 for a second, 3.4k-line hand-written compiler, with an oracle (fc's translation) that is itself undecided here (DESIGN §5).",
}
pending = {k: "check not built yet in this round (planned, DESIGN §9 staging); not claimed until its obligations discharge on the unchanged tree" for k in
           ["C03","C05","C06","C07","C08","C09","C10","C11","C14","C15","C16","C18"] if k not in claimed}
hooks_commits = subprocess.run(["git","-C","/repo","log","--format=%H %s"],capture_output=True,text=True).stdout.splitlines()
hook_shas = [l.split()[0] for l in hooks_commits if " verif hooks:" in l]
man = {
 "version": 1,
 "setup_cmd": f"cd /verif && {ENV} go build -o bin/ ./cmd/...",
 "hooks": {
   "guard": "verif",
   "enable": "go build tag `verif` (-tags verif): enables the comment-only contract files <pkg>/contracts_verif.go; checks load /repo with go/packages BuildFlags -tags=verif",
   "baseline_off_cmd": "for m in cmd/build_sample_md fc pkg/buf pkg/dict pkg/frt pkg/slice pkg/strings pkg/sys tinyfo; do (cd /repo/$m && go test -mod=mod -vet=off -count=1 ./...) || exit 1; done",
   "source_commits": hook_shas,
   "add_only": True,
 },
 "engines": [{"name":"fovc","path":"/verif/fovc","serves_properties":sorted(claimed),"kind_free_text":"home-grown deductive verifier for two Go subsets: contracts as //@ comments, symbolic execution + loop invariants -> SMT-LIB obligations, z3/z3-new/cvc5 raced per obligation, counterexample replay on the real code via go test -overlay"}],
 "checks": [],
 "not_applicable": [{"property_id":k,"reason":v} for k,v in sorted({**na, **pending}.items())],
 "notes": "One technique family: contract-based deductive verification of the real Go code. Known findings and fixed defects: /verif/known_findings.json. Design: /verif/DESIGN.md.",
}
for k in sorted(claimed):
    c = claimed[k]
    man["checks"].append({
      "property_id": k,
      "quick_cmd": f"./bin/check {k} --tier quick",
      "thorough_cmd": f"./bin/check {k} --tier thorough",
      "evidence_file": f"/verif/evidence/{k}.json",
      "engine": "fovc",
      "level_claimed": {"category":"proof","text":c["text"],"design_ref":c["design"]},
      "level_note": TB,
      "technique": c["technique"],
    })
json.dump(man, open("/verif/MANIFEST.json","w"), indent=1)
print("wrote MANIFEST.json with", len(man["checks"]), "checks")
